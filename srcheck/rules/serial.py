"""Serialisation and command-line rules (C08, C11, C12)."""
from __future__ import annotations

import ast
from typing import Dict, List, Optional, Set, Tuple

from .. import costmodel as cm
from ..core import (
    AnalysisError,
    FuncNode,
    Module,
    Program,
    RuleResult,
    calls_in,
    dotted,
    func_params,
    kwarg,
    short,
    walk_no_nested,
)
from ..flow import Opaque, consistent, guards, loops_around, paths, reaching
from ..resolve import all_fields, class_bases, enum_members, method_def, resolve_callee, resolve_name

MODEL = "model.reconciliation"
MODEL_CLASSES = [
    "ReconciliationInput",
    "ReconciliationOutput",
    "SuperReconciliationInput",
    "SuperReconciliationOutput",
]


def _is_super_call(node: ast.AST, meth: str) -> bool:
    return (
        isinstance(node, ast.Call)
        and isinstance(node.func, ast.Attribute)
        and node.func.attr == meth
        and isinstance(node.func.value, ast.Call)
        and dotted(node.func.value.func) == "super"
    )


def _base_class(prog: Program, mod: Module, cls: ast.ClassDef) -> Optional[Tuple[Module, ast.ClassDef]]:
    bases = class_bases(prog, mod, cls)
    return bases[0] if bases else None


def _returned_dict(fn: ast.AST) -> ast.Dict:
    """the dictionary literal a method returns; `d = {...}; d[k] = v ...; return d` is folded into one literal
    (unconditional stores only - conditional ones are listed by `_conditional_stores`)"""
    rets = [n for n in walk_no_nested(fn) if isinstance(n, ast.Return) and n.value is not None]
    if len(rets) == 1 and isinstance(rets[0].value, ast.Name):
        name = rets[0].value.id
        binds = [st for st in fn.body if isinstance(st, ast.Assign) and len(st.targets) == 1 and dotted(st.targets[0]) == name]
        if len(binds) == 1 and isinstance(binds[0].value, ast.Dict):
            lit = ast.Dict(keys=list(binds[0].value.keys), values=list(binds[0].value.values))
            ast.copy_location(lit, binds[0].value)
            for st in fn.body:
                if isinstance(st, ast.Assign) and len(st.targets) == 1 and isinstance(st.targets[0], ast.Subscript) and dotted(st.targets[0].value) == name:
                    lit.keys.append(st.targets[0].slice)
                    lit.values.append(st.value)
            for test, key, _val, _node in _conditional_stores(fn):
                lit.keys.append(ast.Constant(value=key))
                lit.values.append(ast.Constant(value=None))
            return lit
    if len(rets) != 1 or not isinstance(rets[0].value, ast.Dict):
        raise AnalysisError(f"{fn.name}: expected a single `return {{...}}`")
    return rets[0].value


def _conditional_stores(fn: ast.AST):
    """[(test, key, value, node)] for `if test: d[key] = value` at the top level of a method that returns `d`"""
    rets = [n for n in walk_no_nested(fn) if isinstance(n, ast.Return) and n.value is not None]
    out = []
    if len(rets) == 1 and isinstance(rets[0].value, ast.Name):
        name = rets[0].value.id
        for st in fn.body:
            if isinstance(st, ast.If) and not st.orelse and len(st.body) == 1:
                inner = st.body[0]
                if isinstance(inner, ast.Assign) and len(inner.targets) == 1 and isinstance(inner.targets[0], ast.Subscript) and dotted(inner.targets[0].value) == name and isinstance(inner.targets[0].slice, ast.Constant):
                    out.append((st.test, inner.targets[0].slice.value, inner.value, st))
            elif isinstance(st, (ast.If, ast.For, ast.While, ast.Try)) and any(isinstance(x, ast.Subscript) and isinstance(x.ctx, ast.Store) and dotted(x.value) == name for x in ast.walk(st)):
                raise AnalysisError(f"{fn.name}: `{short(st, 60)}` writes into the returned dictionary in a way that is not understood")
    return out


def _dict_keys(prog: Program, mod: Module, cls: ast.ClassDef, meth: str) -> Set[str]:
    """String keys of the dict a method returns, following `**super().<meth>()` and
    `**name` where name = super().<meth>(...)."""
    fn = method_def(cls, meth)
    if fn is None:
        base = _base_class(prog, mod, cls)
        if base is None:
            raise AnalysisError(f"{cls.name}.{meth} not found")
        return _dict_keys(prog, base[0], base[1], meth)
    d = _returned_dict(fn)
    keys: Set[str] = set()
    for k, v in zip(d.keys, d.values):
        if k is None:
            src = v
            if isinstance(v, ast.Name):
                val = reaching(fn, v.id, d)
                if val is not None and not isinstance(val, Opaque):
                    src = val
            if _is_super_call(src, meth):
                base = _base_class(prog, mod, cls)
                if base is None:
                    raise AnalysisError(f"{cls.name}.{meth}: super() without a base class")
                keys |= _dict_keys(prog, base[0], base[1], meth)
            else:
                raise AnalysisError(f"{cls.name}.{meth}: spread `{short(v)}` not recognised")
        elif isinstance(k, ast.Constant) and isinstance(k.value, str):
            keys.add(k.value)
        else:
            raise AnalysisError(f"{cls.name}.{meth}: non-literal key `{short(k)}`")
    return keys


def _read_keys(prog: Program, mod: Module, cls: ast.ClassDef) -> Tuple[Set[str], Set[str]]:
    """(keys read, keys read optionally) from the `data` parameter of _from_dict."""
    fn = method_def(cls, "_from_dict")
    if fn is None:
        base = _base_class(prog, mod, cls)
        if base is None:
            raise AnalysisError(f"{cls.name}._from_dict not found")
        return _read_keys(prog, base[0], base[1])
    params = func_params(fn)
    data = params[1] if len(params) > 1 else "data"
    keys: Set[str] = set()
    optional: Set[str] = set()
    for node in walk_no_nested(fn):
        if isinstance(node, ast.Subscript) and dotted(node.value) == data and isinstance(node.slice, ast.Constant):
            keys.add(node.slice.value)
        if isinstance(node, ast.Compare) and len(node.ops) == 1 and isinstance(node.ops[0], (ast.In, ast.NotIn)):
            if dotted(node.comparators[0]) == data and isinstance(node.left, ast.Constant):
                keys.add(node.left.value)
                optional.add(node.left.value)
        if (
            isinstance(node, ast.Call)
            and isinstance(node.func, ast.Attribute)
            and node.func.attr == "get"
            and dotted(node.func.value) == data
            and node.args
            and isinstance(node.args[0], ast.Constant)
        ):
            keys.add(node.args[0].value)
            optional.add(node.args[0].value)
        if _is_super_call(node, "_from_dict"):
            base = _base_class(prog, mod, cls)
            if base:
                k2, o2 = _read_keys(prog, base[0], base[1])
                keys |= k2
                optional |= o2
    return keys, optional


def dict_keys(prog: Program) -> RuleResult:
    res = RuleResult(
        "DICT-KEYS",
        "for each model class the keys written by to_dict equal the keys read by _from_dict "
        "(following super() in both)",
    )
    mod = prog.module(MODEL)
    for cname in MODEL_CLASSES:
        cls = prog.cls(MODEL, cname)
        written = _dict_keys(prog, mod, cls, "to_dict")
        read, optional = _read_keys(prog, mod, cls)
        construct = f"{MODEL}:{cname}/keys"
        lost = sorted(written - read)
        missing = sorted(read - written)
        if lost:
            res.fail(
                construct,
                f"to_dict writes {lost} but _from_dict never reads it: that part of the object is lost on reload",
                mod,
                method_def(cls, "_from_dict") or cls,
            )
        elif missing:
            res.fail(
                construct,
                f"_from_dict reads {missing} which to_dict never writes: "
                + ("reload falls back to a default instead of the serialised value" if set(missing) <= optional else "reload fails with KeyError"),
                mod,
                method_def(cls, "to_dict") or cls,
            )
        else:
            res.ok(construct, f"{sorted(written)}")
        # a key written only under a condition: what the reader assumes when it is absent must be what the
        # condition means
        td = method_def(cls, "to_dict")
        fd = method_def(cls, "_from_dict")
        for test, key, val, node in (_conditional_stores(td) if td is not None else []):
            construct = f"{MODEL}:{cname}/conditional-key[{key}]"
            default = None
            for c in walk_no_nested(fd) if fd is not None else []:
                if isinstance(c, ast.Call) and isinstance(c.func, ast.Attribute) and c.func.attr == "get" and c.args and isinstance(c.args[0], ast.Constant) and c.args[0].value == key and len(c.args) == 2:
                    default = c.args[1]
            field = dotted(test) if isinstance(test, ast.Attribute) else (dotted(test.operand) if isinstance(test, ast.UnaryOp) and isinstance(test.op, ast.Not) else None)
            if field is None or not field.startswith("self.") or not isinstance(default, ast.Constant) or not isinstance(val, ast.Constant):
                raise AnalysisError(f"{cname}.to_dict: the key {key!r} is written only when `{short(test, 50)}`; what readers assume when it is absent is not decided")
            written_when_truthy = isinstance(test, ast.Attribute)
            absent_means = not written_when_truthy  # truth value of the field when the key is absent
            if bool(default.value) != absent_means or bool(val.value) != written_when_truthy:
                res.fail(construct, f"to_dict writes {key!r} only when `{short(test, 40)}`, and _from_dict reads an absent {key!r} as {default.value!r}: an object with `{field}` {'false' if written_when_truthy else 'true'} comes back with the opposite flag", mod, node)
            else:
                res.ok(construct, f"absent {key!r} is read as {default.value!r}, which is what `{short(test, 40)}` being false means")
    res.floor(4)
    return res


def fields_serialised(prog: Program) -> RuleResult:
    res = RuleResult(
        "FIELDS-SERIALISED",
        "the dict _from_dict returns has exactly the dataclass fields of the class (it is splatted into the "
        "constructor) and to_dict reads every field",
    )
    mod = prog.module(MODEL)
    for cname in MODEL_CLASSES:
        cls = prog.cls(MODEL, cname)
        fields = set(all_fields(prog, mod, cls))
        built = _dict_keys(prog, mod, cls, "_from_dict")
        construct = f"{MODEL}:{cname}/fields"
        if built != fields:
            res.fail(
                construct,
                f"_from_dict builds {sorted(built)} but the class has fields {sorted(fields)} "
                f"(missing {sorted(fields - built)}, extra {sorted(built - fields)})",
                mod,
                method_def(cls, "_from_dict") or cls,
            )
        else:
            res.ok(construct, f"_from_dict builds {sorted(built)}")
        read = _self_reads(prog, mod, cls, "to_dict")
        construct = f"{MODEL}:{cname}/to_dict-reads"
        if fields - read:
            res.fail(
                construct,
                f"to_dict never reads field(s) {sorted(fields - read)}: they cannot survive a round trip",
                mod,
                method_def(cls, "to_dict") or cls,
            )
        else:
            res.ok(construct, f"reads {sorted(read & fields)}")
    res.floor(8)
    return res


def _self_reads(prog: Program, mod: Module, cls: ast.ClassDef, meth: str) -> Set[str]:
    fn = method_def(cls, meth)
    out: Set[str] = set()
    if fn is not None:
        for node in walk_no_nested(fn):
            if isinstance(node, ast.Attribute) and isinstance(node.value, ast.Name) and node.value.id == "self":
                out.add(node.attr)
        uses_super = any(_is_super_call(n, meth) for n in walk_no_nested(fn))
    else:
        uses_super = True
    if uses_super:
        base = _base_class(prog, mod, cls)
        if base:
            out |= _self_reads(prog, base[0], base[1], meth)
    return out


def tree_write_args(prog: Program) -> RuleResult:
    res = RuleResult(
        "TREE-WRITE-ARGS",
        "every Newick serialisation in the model keeps internal names (format 8), the root node and the colour "
        "feature; every reader uses a format that parses internal names",
    )
    mod = prog.module(MODEL)
    n_w = 0
    for qual, fn in prog.defs(MODEL).items():
        if not isinstance(fn, FuncNode):
            continue
        for call in calls_in(fn, nested=False):
            if isinstance(call.func, ast.Attribute) and call.func.attr == "write" and not call.args:
                n_w += 1
                construct = f"{MODEL}:{qual}/write[{short(call.func.value, 40)}]"
                problems = []
                fmt = kwarg(call, "format")
                if not (isinstance(fmt, ast.Constant) and fmt.value in (8, 1, 3)):
                    problems.append(f"format={short(fmt)} does not write the names of internal nodes")
                elif fmt.value != 8:
                    problems.append(f"format={fmt.value} also writes branch lengths / differs from the documented format 8")
                root = kwarg(call, "format_root_node")
                if not (isinstance(root, ast.Constant) and root.value is True):
                    problems.append("format_root_node is not True: the name of the root is dropped")
                feats = kwarg(call, "features")
                names = (
                    [e.value for e in feats.elts if isinstance(e, ast.Constant)]
                    if isinstance(feats, (ast.List, ast.Tuple))
                    else []
                )
                if "color" not in names:
                    problems.append("features does not contain 'color': colour annotations are lost")
                edits = [c for c in walk_no_nested(fn) if isinstance(c, ast.Call) and isinstance(c.func, ast.Attribute) and c.func.attr in TREE_EDITORS]
                if edits:
                    problems.append(f"the tree is edited before it is written (`{short(edits[0], 50)}`): what is read back is not the tree of the object")
                if problems:
                    res.fail(construct, f"`{short(call, 80)}`: " + "; ".join(problems), mod, call)
                else:
                    res.ok(construct, "format=8, format_root_node=True, features has 'color'")
            if dotted(call.func) == "Tree" and call.args and not isinstance(call.args[0], ast.Constant):
                construct = f"{MODEL}:{qual}/read[{short(call.args[0], 40)}]"
                fmt = kwarg(call, "format", 1)
                if isinstance(fmt, ast.Constant) and fmt.value in (1, 8, 3):
                    res.ok(construct, f"format={fmt.value}")
                else:
                    res.fail(
                        construct,
                        f"`{short(call, 70)}` parses with format={short(fmt) if fmt is not None else 'default 0'}: "
                        "names of internal nodes are read as support values",
                        mod,
                        call,
                    )
    if res.findings:
        return res  # a call site that is wrong is reported even when the other call sites were folded into it
    if n_w < 4:
        raise AnalysisError(f"TREE-WRITE-ARGS: only {n_w} Tree.write call sites found in {MODEL}")
    res.floor(6)
    return res


def enum_disjoint(prog: Program) -> RuleResult:
    res = RuleResult(
        "ENUM-DISJOINT",
        "NodeEvent and EdgeEvent share no member name (costs are serialised by bare member name and parsed with "
        "hasattr(NodeEvent, name) first) and every serialised cost key names a member",
    )
    mod = prog.module(MODEL)
    ne = set(enum_members(prog.cls(MODEL, "NodeEvent")))
    ee = set(enum_members(prog.cls(MODEL, "EdgeEvent")))
    if ne & ee:
        res.fail(f"{MODEL}:NodeEvent/EdgeEvent", f"member names {sorted(ne & ee)} exist in both enums", mod, prog.cls(MODEL, "EdgeEvent"))
    else:
        res.ok(f"{MODEL}:NodeEvent/EdgeEvent", f"{len(ne)} + {len(ee)} distinct member names")
    # to_dict writes event.name ; _from_dict resolves through both enums
    cls = prog.cls(MODEL, "ReconciliationInput")
    td = method_def(cls, "to_dict")
    fd = method_def(cls, "_from_dict")
    # the key of the "costs" pairs is `<loop variable over self.costs.items()>.name`
    names_written = False
    for comp in ast.walk(td):
        if isinstance(comp, (ast.DictComp, ast.GeneratorExp, ast.ListComp)) and len(comp.generators) == 1:
            gen = comp.generators[0]
            if isinstance(gen.iter, ast.Call) and isinstance(gen.iter.func, ast.Attribute) and gen.iter.func.attr == "items" and (dotted(gen.iter.func.value) or "").endswith("costs"):
                kvar = dotted(gen.target.elts[0]) if isinstance(gen.target, ast.Tuple) else None
                key = comp.key if isinstance(comp, ast.DictComp) else (comp.elt.elts[0] if isinstance(comp.elt, ast.Tuple) and comp.elt.elts else None)
                if isinstance(key, ast.Attribute) and key.attr == "name" and dotted(key.value) == kvar:
                    names_written = True
    if names_written:
        res.ok(f"{MODEL}:ReconciliationInput.to_dict/cost-keys", "costs keyed by event.name")
    else:
        res.fail(f"{MODEL}:ReconciliationInput.to_dict/cost-keys", "costs are not keyed by the bare member name", mod, td)
    looked = {dotted(c.args[0]) for c in calls_in(fd) if dotted(c.func) in ("getattr", "hasattr") and c.args}
    if {"NodeEvent", "EdgeEvent"} <= looked:
        res.ok(f"{MODEL}:ReconciliationInput._from_dict/cost-keys", "resolved through NodeEvent then EdgeEvent")
    else:
        res.fail(
            f"{MODEL}:ReconciliationInput._from_dict/cost-keys",
            f"cost names are only resolved through {sorted(x for x in looked if x)}",
            mod,
            fd,
        )
    return res


def mapping_keying(prog: Program) -> RuleResult:
    res = RuleResult(
        "MAPPING-KEYING",
        "mappings are serialised keyed by node name (key from the key node, value from the value) and parsed by "
        "looking the key up in the source tree and the value in the target tree",
    )
    specs = [
        ("model.tree_mapping", "serialize_tree_mapping", "ser2"),
        ("model.tree_mapping", "parse_tree_mapping", "par2"),
        ("model.synteny", "serialize_synteny_mapping", "ser1"),
        ("model.synteny", "parse_synteny_mapping", "par1"),
    ]
    for modname, fname, kind in specs:
        mod = prog.module(modname)
        fn = prog.func(modname, fname)
        construct = f"{modname}:{fname}"
        comps = [n for n in walk_no_nested(fn) if isinstance(n, ast.DictComp)]
        rets = [n for n in walk_no_nested(fn) if isinstance(n, ast.Return) and isinstance(n.value, ast.DictComp)]
        if len(rets) != 1:
            raise AnalysisError(f"{construct}: expected one returned dict comprehension")
        comp = rets[0].value
        # name indices built beforehand: idx = {<f>(node.name): node for node in <tree>...}, directly or
        # through a helper of the package that returns such a comprehension over its parameter
        indices = {}
        index_iter = {}
        for stmt in walk_no_nested(fn):
            if not (isinstance(stmt, ast.Assign) and len(stmt.targets) == 1 and isinstance(stmt.targets[0], ast.Name)):
                continue
            if isinstance(stmt.value, ast.DictComp):
                indices[stmt.targets[0].id] = stmt.value
                index_iter[stmt.targets[0].id] = stmt.value.generators[0].iter
            elif isinstance(stmt.value, ast.Call) and len(stmt.value.args) == 1 and not stmt.value.keywords:
                from ..resolve import resolve_callee

                target = resolve_callee(prog, mod, stmt.value.func)
                if target and isinstance(target[1], ast.FunctionDef):
                    helper = target[1]
                    hrets = [n for n in walk_no_nested(helper) if isinstance(n, ast.Return) and n.value is not None]
                    hparams = func_params(helper)
                    if (
                        len(hrets) == 1
                        and isinstance(hrets[0].value, ast.DictComp)
                        and len(hparams) == 1
                        and dotted(hrets[0].value.generators[0].iter) == hparams[0]
                    ):
                        indices[stmt.targets[0].id] = hrets[0].value
                        index_iter[stmt.targets[0].id] = stmt.value.args[0]
        if any(c is not comp and not any(c is i for i in indices.values()) for c in comps):
            raise AnalysisError(f"{construct}: unexpected dict comprehension")
        gen = comp.generators[0]
        params = func_params(fn)
        ok_iter = (
            isinstance(gen.iter, ast.Call)
            and isinstance(gen.iter.func, ast.Attribute)
            and gen.iter.func.attr == "items"
            and isinstance(gen.target, ast.Tuple)
            and len(gen.target.elts) == 2
        )
        if not ok_iter:
            raise AnalysisError(f"{construct}: comprehension does not iterate `.items()` with two targets")
        kvar, vvar = (dotted(e) for e in gen.target.elts)
        problems = []
        if gen.ifs:
            problems.append("entries are filtered")
        if kind.startswith("ser"):
            if not (isinstance(comp.key, ast.Attribute) and comp.key.attr == "name" and dotted(comp.key.value) == kvar):
                problems.append(f"key is `{short(comp.key)}`, not `{kvar}.name`")
            if kind == "ser2":
                if not (isinstance(comp.value, ast.Attribute) and comp.value.attr == "name" and dotted(comp.value.value) == vvar):
                    problems.append(f"value is `{short(comp.value)}`, not `{vvar}.name`")
            else:
                used = {n.id for n in ast.walk(comp.value) if isinstance(n, ast.Name)}
                if vvar not in used or kvar in used:
                    problems.append(f"value `{short(comp.value, 60)}` is not built from `{vvar}`")
        else:
            def lookup(expr, tree_param, var):
                if (
                    isinstance(expr, ast.BinOp)
                    and isinstance(expr.op, ast.BitAnd)
                    and dotted(expr.left) == tree_param
                    and dotted(expr.right) == var
                ):
                    return True
                # idx[<f>(var)] with idx = {<g>(node.name): node for node in tree_param...}
                if isinstance(expr, ast.Subscript) and isinstance(expr.value, ast.Name) and expr.value.id in indices:
                    idx = indices[expr.value.id]
                    igen = idx.generators[0]
                    inode = dotted(igen.target)
                    over_tree = tree_param in {n.id for n in ast.walk(index_iter[expr.value.id]) if isinstance(n, ast.Name)}
                    if len(idx.generators) == 2 and isinstance(idx.generators[0].iter, (ast.Tuple, ast.List)) and len(idx.generators[0].iter.elts) >= 2:
                        # one index for several trees: `for tree in (from_tree, to_tree) for node in tree.traverse()`
                        shared = [dotted(e) for e in idx.generators[0].iter.elts]
                        problems.append(
                            f"`{short(expr)}` resolves `{var}` through ONE name index built over {shared}: a name used in both "
                            "trees (an ancestral gene named after its species) resolves to a node of the wrong tree"
                        )
                        return True
                    if not (inode and over_tree and dotted(idx.value) == inode and len(idx.generators) == 1):
                        raise AnalysisError(f"{construct}: name index `{expr.value.id}` has a shape that is not recognised")
                    key_norm = _name_normaliser(idx.key, ast.Attribute(value=ast.Name(id=inode, ctx=ast.Load()), attr="name", ctx=ast.Load()))
                    use_norm = _name_normaliser(expr.slice, ast.Name(id=var, ctx=ast.Load()))
                    if key_norm is None or use_norm is None:
                        raise AnalysisError(f"{construct}: name index `{expr.value.id}` is keyed / queried in a way that is not recognised")
                    if key_norm or use_norm:
                        problems.append(
                            f"`{short(expr)}` resolves `{var}` through an index keyed by "
                            f"`{short(idx.key)}`: names are matched after {sorted(set(key_norm + use_norm))}, which is not "
                            "injective on node names (two uniquely named nodes can collapse)"
                        )
                    benign = all(isinstance(c, ast.Attribute) and c.attr == "name" and dotted(c.value) == inode for c in igen.ifs)
                    if igen.ifs and not benign:
                        problems.append(f"name index `{expr.value.id}` leaves nodes out ({short(igen.ifs[0])})")
                    return True
                return False

            def wrong(expr, tree_param, var, what):
                """A lookup of a recognisable shape that uses the wrong tree or the wrong name is a violation;
                any other shape is not understood."""
                if isinstance(expr, ast.BinOp) and isinstance(expr.op, ast.BitAnd):
                    return f"{what} is `{short(expr)}`, not `{tree_param} & {var}`"
                if dotted(expr) in (kvar, vvar):
                    return f"{what} is the bare name `{short(expr)}`, not the node `{tree_param} & {var}`"
                raise AnalysisError(f"{construct}: {what} `{short(expr)}` is not a recognised name lookup")

            if not lookup(comp.key, params[0], kvar):
                problems.append(wrong(comp.key, params[0], kvar, "key"))
            if kind == "par2":
                if not lookup(comp.value, params[1], vvar):
                    problems.append(wrong(comp.value, params[1], vvar, "value"))
            elif dotted(comp.value) != vvar:
                problems.append(f"value is `{short(comp.value)}`, not `{vvar}`")
        if problems:
            res.fail(construct, "; ".join(problems), mod, comp)
        else:
            res.ok(construct, short(comp, 90))
    return res


def _name_normaliser(expr: ast.AST, base: ast.AST):
    """[] if `expr` is `base` itself, [m1, m2...] if it is base.m1().m2()... / str-calls on it, None otherwise."""
    chain = []
    cur = expr
    while True:
        if ast.dump(cur) == ast.dump(base):
            return list(reversed(chain))
        if isinstance(cur, ast.Call) and isinstance(cur.func, ast.Attribute) and not cur.keywords:
            chain.append(cur.func.attr + "()")
            cur = cur.func.value
            continue
        if isinstance(cur, ast.Call) and isinstance(cur.func, ast.Name) and len(cur.args) == 1 and cur.func.id == "str":
            cur = cur.args[0]
            continue
        return None



# ---------------------------------------------------------------------------
# cost values are passed through verbatim


def _truthiness_use(expr: ast.AST, is_raw) -> Optional[str]:
    """'' if `expr` is the raw value; a description if the raw value is used as a truth value to choose
    between itself and something else; None if the shape is not understood."""
    if is_raw(expr):
        return ""
    if isinstance(expr, ast.BoolOp) and any(is_raw(v) for v in expr.values):
        return f"`{short(expr)}` replaces a falsy value (0 is a legitimate unit cost) by another operand"
    if isinstance(expr, ast.IfExp):
        test = expr.test
        while isinstance(test, ast.UnaryOp) and isinstance(test.op, ast.Not):
            test = test.operand
        if is_raw(test) and (is_raw(expr.body) or is_raw(expr.orelse)):
            return f"`{short(expr)}` tests the value for truth: a cost of 0 takes the other branch"
        if isinstance(test, ast.Compare) and len(test.ops) == 1 and isinstance(test.ops[0], (ast.Eq, ast.NotEq)):
            if (is_raw(test.left) or is_raw(test.comparators[0])) and (is_raw(expr.body) != is_raw(expr.orelse)):
                other = expr.orelse if is_raw(expr.body) else expr.body
                return (
                    f"`{short(expr)}` stores `{short(other)}` instead of the value read whenever the comparison "
                    "holds: an equal object of another type does not serialise the same way (infinity.inf is not a "
                    "JSON number, float('inf') is)"
                )
        if isinstance(test, ast.Compare) and len(test.ops) == 1 and isinstance(test.ops[0], (ast.Is, ast.IsNot)):
            if is_raw(test.left) and isinstance(test.comparators[0], ast.Constant) and test.comparators[0].value is None:
                if is_raw(expr.body) or is_raw(expr.orelse):
                    return ""  # `v if v is not None else default` keeps every number
    return None


def cost_passthrough(prog: Program) -> RuleResult:
    res = RuleResult(
        "COST-PASSTHROUGH",
        "unit costs travel verbatim from the command line into the input object, from a dictionary into the "
        "input object and from the input object into its dictionary: the stored value is the value read, never "
        "`value or default` / `x if value else y` (0 is a legitimate cost and is falsy), and no entry is filtered",
    )
    model = "model.reconciliation"
    mmod = prog.module(model)
    cls = prog.cls(model, "ReconciliationInput")
    from ..resolve import method_def

    # (1) to_dict: "costs": dict((event.name, value) for event, value in self.costs.items()) or a dict comprehension
    to_dict = method_def(cls, "to_dict")
    fd = method_def(cls, "_from_dict")
    if to_dict is None or fd is None:
        raise AnalysisError("ReconciliationInput.to_dict/_from_dict not found")
    ret = _returned_dict(to_dict)
    cost_val = None
    for k, v in zip(ret.keys, ret.values):
        if isinstance(k, ast.Constant) and k.value == "costs":
            cost_val = v
    if cost_val is None:
        raise AnalysisError("ReconciliationInput.to_dict: no 'costs' entry")
    comp = None
    for sub in ast.walk(cost_val):
        if isinstance(sub, (ast.DictComp, ast.GeneratorExp, ast.ListComp)):
            comp = sub
            break
    if comp is None or len(comp.generators) != 1:
        raise AnalysisError("ReconciliationInput.to_dict: 'costs' is not built by one comprehension")
    gen = comp.generators[0]
    if not (isinstance(gen.target, ast.Tuple) and len(gen.target.elts) == 2 and isinstance(gen.target.elts[1], ast.Name)):
        raise AnalysisError("ReconciliationInput.to_dict: 'costs' comprehension does not unpack (event, value)")
    vname = gen.target.elts[1].id
    stored = comp.value if isinstance(comp, ast.DictComp) else (comp.elt.elts[1] if isinstance(comp.elt, ast.Tuple) and len(comp.elt.elts) == 2 else None)
    if stored is None:
        raise AnalysisError("ReconciliationInput.to_dict: 'costs' pairs not recognised")
    _judge(res, f"{model}:ReconciliationInput.to_dict/costs", stored, lambda e: isinstance(e, ast.Name) and e.id == vname, gen.ifs, mmod)

    # (2) _from_dict: for event, value in data["costs"].items(): ... costs[<enum>] = <value>
    found = False
    for loop in walk_no_nested(fd):
        if not (isinstance(loop, ast.For) and isinstance(loop.target, ast.Tuple) and len(loop.target.elts) == 2):
            continue
        it = loop.iter
        if not (isinstance(it, ast.Call) and isinstance(it.func, ast.Attribute) and it.func.attr == "items"):
            continue
        base = it.func.value
        if not (isinstance(base, ast.Subscript) and isinstance(base.slice, ast.Constant) and base.slice.value == "costs"):
            continue
        if not isinstance(loop.target.elts[1], ast.Name):
            raise AnalysisError("_from_dict: cost loop does not bind the value to a name")
        vname2 = loop.target.elts[1].id
        ret_fd = _returned_dict(fd)
        cost_local = next((dotted(v) for k, v in zip(ret_fd.keys, ret_fd.values) if isinstance(k, ast.Constant) and k.value == "costs"), None)
        stores = [
            n for n in ast.walk(loop)
            if isinstance(n, ast.Assign) and len(n.targets) == 1 and isinstance(n.targets[0], ast.Subscript)
            and dotted(n.targets[0].value) == cost_local
        ]
        if not stores:
            raise AnalysisError("_from_dict: no store into the cost vector inside the cost loop")
        rebinds = [
            n for n in ast.walk(loop)
            if (isinstance(n, ast.Assign) and any(isinstance(t, ast.Name) and t.id == vname2 for t in n.targets))
            or (isinstance(n, ast.AugAssign) and isinstance(n.target, ast.Name) and n.target.id == vname2)
            or (isinstance(n, ast.NamedExpr) and n.target.id == vname2)
        ]
        for rb in rebinds:
            found = True
            res.fail(
                f"{model}:ReconciliationInput._from_dict/costs",
                f"the cost read from the dictionary is rewritten (`{short(rb, 80)}`) before it is stored: the parsed "
                "cost vector differs from the written one (e.g. 1.5 becomes 1)",
                mmod,
                rb,
            )
        for st in stores:
            found = True
            skipping = [g for g, _p in guards(fd, st) if vname2 in {n.id for n in ast.walk(g) if isinstance(n, ast.Name)}]
            _judge(res, f"{model}:ReconciliationInput._from_dict/costs", st.value,
                   lambda e, v=vname2: isinstance(e, ast.Name) and e.id == v, skipping, mmod)
    if not found:
        raise AnalysisError("_from_dict: loop over data['costs'].items() not found")

    # (3) command line: data["costs"] = dict((kind, getattr(args, f"cost_{argname}")) for ...)
    cmod = prog.module(CLI)
    read_input = prog.func(CLI, "read_input")
    site = None
    for st in walk_no_nested(read_input):
        if isinstance(st, ast.Assign) and len(st.targets) == 1 and isinstance(st.targets[0], ast.Subscript):
            tgt = st.targets[0]
            if isinstance(tgt.slice, ast.Constant) and tgt.slice.value == "costs":
                site = st
    if site is None:
        raise AnalysisError("read_input: assignment of data['costs'] not found")
    comp = next((c for c in ast.walk(site.value) if isinstance(c, (ast.DictComp, ast.GeneratorExp, ast.ListComp))), None)
    if comp is None:
        raise AnalysisError("read_input: data['costs'] is not built by a comprehension over the cost options")
    stored = comp.value if isinstance(comp, ast.DictComp) else (comp.elt.elts[1] if isinstance(comp.elt, ast.Tuple) and len(comp.elt.elts) == 2 else None)
    if stored is None:
        raise AnalysisError("read_input: cost pairs not recognised")

    def is_option(e: ast.AST) -> bool:
        return (
            isinstance(e, ast.Call)
            and dotted(e.func) == "getattr"
            and len(e.args) in (2, 3)
            and dotted(e.args[0]) == "args"
            and isinstance(e.args[1], ast.JoinedStr)
        ) or (isinstance(e, ast.Subscript) and isinstance(e.value, ast.Call) and dotted(e.value.func) == "vars")

    _judge(res, f"{CLI}:read_input/costs", stored, is_option, comp.generators[0].ifs, cmod)
    return res


def _judge(res: RuleResult, construct: str, stored: ast.AST, is_raw, filters, mod: Module) -> None:
    verdict = _truthiness_use(stored, is_raw)
    if verdict is None and isinstance(stored, ast.Call) and isinstance(stored.func, ast.Name) and len(stored.args) == 1 and is_raw(stored.args[0]):
        # the value goes through a helper of the module: a conversion to int / a rounding inside it is not a
        # pass-through (int(inf) raises OverflowError, 1.5 becomes 1)
        helper = next((st for st in mod.tree.body if isinstance(st, ast.FunctionDef) and st.name == stored.func.id), None)
        if helper is not None:
            conv = [c for c in ast.walk(helper) if isinstance(c, ast.Call) and dotted(c.func) in ("int", "round", "math.floor", "math.ceil", "math.trunc", "floor", "ceil", "trunc")]
            if conv:
                res.fail(construct, f"the cost is passed through `{helper.name}`, which applies `{short(conv[0])}` to it: an infinite cost (a forbidden event) cannot be converted and a fractional one changes", mod, stored)
                return
    if verdict is None:
        raise AnalysisError(f"{construct}: stored value `{short(stored)}` has a shape that is not recognised")
    problems = []
    if verdict:
        problems.append(verdict)
    for cond in filters:
        problems.append(f"entries are skipped under `{short(cond)}`")
    if problems:
        res.fail(construct, "; ".join(problems), mod, stored)
    else:
        res.ok(construct, f"stores `{short(stored, 60)}` verbatim")



def _is_cost_read(expr: ast.AST) -> bool:
    """`<x>.costs[k]`, `costs[k]`, `<x>.costs.get(k...)`, `getattr(args, f"cost_...")`."""
    if isinstance(expr, ast.Subscript):
        name = dotted(expr.value) or ""
        return name.split(".")[-1] == "costs"
    if isinstance(expr, ast.Call) and isinstance(expr.func, ast.Attribute) and expr.func.attr == "get":
        name = dotted(expr.func.value) or ""
        return name.split(".")[-1] in ("costs", "given_costs")
    if isinstance(expr, ast.Call) and dotted(expr.func) == "getattr" and len(expr.args) >= 2:
        second = expr.args[1]
        if isinstance(second, ast.JoinedStr) and second.values and isinstance(second.values[0], ast.Constant):
            return str(second.values[0].value).startswith("cost_")
        if isinstance(second, ast.Constant) and isinstance(second.value, str):
            return second.value.startswith("cost_")
    return False


def _is_default_cost(fn: ast.AST, expr: ast.AST, mod: Module) -> bool:
    """The expression is a default unit cost: an element of get_default_cost()."""
    def from_defaults(e: ast.AST, depth: int = 0) -> bool:
        if depth > 4:
            return False
        if isinstance(e, ast.Call) and dotted(e.func) == "get_default_cost":
            return True
        if isinstance(e, ast.Call) and isinstance(e.func, ast.Attribute) and e.func.attr in ("items", "values", "get"):
            return from_defaults(e.func.value, depth + 1)
        if isinstance(e, ast.Subscript):
            return from_defaults(e.value, depth + 1)
        if isinstance(e, ast.Name) and hasattr(e, "lineno"):
            val = reaching(fn, e.id, e)
            if val is not None and not isinstance(val, Opaque):
                return from_defaults(val, depth + 1)
        return False

    if from_defaults(expr):
        return True
    if isinstance(expr, ast.Name):
        # loop / comprehension variable over get_default_cost().items()
        for node in ast.walk(fn):
            gens = node.generators if isinstance(node, (ast.DictComp, ast.ListComp, ast.SetComp, ast.GeneratorExp)) else []
            loops = [node] if isinstance(node, ast.For) else []
            for g in list(gens) + loops:
                names = {n.id for n in ast.walk(g.target) if isinstance(n, ast.Name)}
                if expr.id in names and from_defaults(g.iter):
                    return True
    return False


def cost_truth(prog: Program) -> RuleResult:
    res = RuleResult(
        "COST-TRUTH",
        "a unit cost is never used as a truth value to choose between itself and a fallback "
        "(`cost or default`, `cost if cost else default`): 0 is a legitimate unit cost and is falsy, so the "
        "fallback silently replaces an explicit zero - in the solvers, in the model and on the command line",
    )
    n_reads = 0
    for mod, qual, fn in prog.functions():
        key = mod.name.split(".", 1)[1] if "." in mod.name else mod.name
        here = sum(1 for node in walk_no_nested(fn) if _is_cost_read(node))
        if here:
            flagged_before = len(res.findings)
        for node in walk_no_nested(fn):
            if _is_cost_read(node):
                n_reads += 1
            first = fallback = None
            if isinstance(node, ast.BoolOp) and isinstance(node.op, ast.Or) and len(node.values) >= 2:
                first, fallback = node.values[0], node.values[-1]
            elif isinstance(node, ast.IfExp):
                test = node.test
                neg = False
                while isinstance(test, ast.UnaryOp) and isinstance(test.op, ast.Not):
                    test, neg = test.operand, not neg
                if ast.dump(test) == ast.dump(node.orelse if neg else node.body):
                    first, fallback = test, (node.body if neg else node.orelse)
            if first is None:
                continue
            if _is_cost_read(first) or _is_default_cost(fn, fallback, mod):
                # a plain name on the left is only suspicious when the fallback is a default cost
                res.fail(
                    f"{key}:{qual}/cost-reads",
                    f"`{short(node, 80)}` falls back to `{short(fallback, 40)}` whenever the cost is falsy: an explicit "
                    "cost of 0 is replaced",
                    mod,
                    node,
                )
        if here and len(res.findings) == flagged_before:
            res.ok(f"{key}:{qual}/cost-reads", f"{here} unit-cost read(s), none used as a truth value with a fallback")
    if n_reads < 15:
        raise AnalysisError(f"COST-TRUTH: only {n_reads} unit-cost reads found in the package")
    return res


# ---------------------------------------------------------------------------
# ordered syntenies keep their order


def order_preserved(prog: Program) -> RuleResult:
    res = RuleResult(
        "ORDER-PRESERVED",
        "a synteny is only re-ordered (sort_synteny / sorted) when it is known to be a set: the sorting branch "
        "of serialize_synteny_mapping and format_synteny is guarded by isinstance(<synteny>, set/frozenset), "
        "every other container (list, tuple, str) is written in its own order",
    )
    modname = "model.synteny"
    mod = prog.module(modname)
    n = 0
    for fname in ("serialize_synteny_mapping", "format_synteny"):
        fn = prog.func(modname, fname)
        for call in ast.walk(fn):
            if not (isinstance(call, ast.Call) and dotted(call.func) in ("sort_synteny", "sorted") and call.args):
                continue
            n += 1
            construct = f"{modname}:{fname}/sorting-branch"
            arg = dotted(call.args[0])
            gs = guards(fn, call)
            ok = False
            for test, pol in gs:
                if (
                    pol
                    and isinstance(test, ast.Call)
                    and dotted(test.func) == "isinstance"
                    and len(test.args) == 2
                    and dotted(test.args[0]) == arg
                ):
                    kinds = test.args[1].elts if isinstance(test.args[1], ast.Tuple) else [test.args[1]]
                    names = {dotted(k) for k in kinds}
                    if names and names <= {"set", "frozenset", "Set", "AbstractSet", "abc.Set"}:
                        ok = True
            if ok:
                res.ok(construct, f"`{short(call)}` only under isinstance({arg}, set)")
            else:
                cond = " and ".join(("" if p else "not ") + short(t, 60) for t, p in gs) or "unconditionally"
                res.fail(
                    construct,
                    f"`{short(call)}` re-orders the synteny under `{cond}`, which does not establish that it is a set: "
                    "an ordered synteny held in another container (a string, a tuple) is written back sorted",
                    mod,
                    call,
                )
    if n < 2:
        raise AnalysisError(f"ORDER-PRESERVED: only {n} sorting sites found in model/synteny.py")
    return res


# ---------------------------------------------------------------------------
# parsed mappings come from the dictionary alone


# methods that edit a tree (ete3's own and the model's): none may run on a tree between parsing and storing it
def _root_of(expr: ast.AST) -> Optional[str]:
    while isinstance(expr, (ast.Attribute, ast.Subscript)):
        expr = expr.value
    return expr.id if isinstance(expr, ast.Name) else None


TREE_EDITORS = {
    "add_feature", "add_features", "del_feature", "swap_children", "ladderize", "sort_descendants", "label_internal",
    "resolve_polytomy", "unroot", "set_outgroup", "prune", "delete", "detach", "remove_child", "add_child", "standardize",
}


def _name_template(expr: ast.AST) -> Optional[Tuple[str, str]]:
    """(prefix, counter expression) of `f"P{n}"`, `"P" + str(n)`, `"P%d" % n`, `"P{}".format(n)`"""
    if isinstance(expr, ast.JoinedStr) and len(expr.values) == 2 and isinstance(expr.values[0], ast.Constant) and isinstance(expr.values[1], ast.FormattedValue) and expr.values[1].format_spec is None:
        return str(expr.values[0].value), ast.unparse(expr.values[1].value)
    if isinstance(expr, ast.BinOp) and isinstance(expr.op, ast.Add) and isinstance(expr.left, ast.Constant) and isinstance(expr.left.value, str):
        r = expr.right
        if isinstance(r, ast.Call) and dotted(r.func) == "str" and len(r.args) == 1:
            return expr.left.value, ast.unparse(r.args[0])
    if isinstance(expr, ast.BinOp) and isinstance(expr.op, ast.Mod) and isinstance(expr.left, ast.Constant) and isinstance(expr.left.value, str) and expr.left.value.endswith(("%d", "%s")) and expr.left.value.count("%") == 1:
        r = expr.right.elts[0] if isinstance(expr.right, ast.Tuple) and len(expr.right.elts) == 1 else expr.right
        return expr.left.value[:-2], ast.unparse(r)
    if isinstance(expr, ast.Call) and isinstance(expr.func, ast.Attribute) and expr.func.attr == "format" and isinstance(expr.func.value, ast.Constant) and isinstance(expr.func.value.value, str) and expr.func.value.value.endswith("{}") and expr.func.value.value.count("{") == 1 and len(expr.args) == 1:
        return expr.func.value.value[:-2], ast.unparse(expr.args[0])
    return None


def field_source(prog: Program) -> RuleResult:
    res = RuleResult(
        "FIELD-SOURCE",
        "in every _from_dict, a mapping field that the dictionary provides is exactly the parse of `data[key]`: the "
        "dictionary handed to parse_tree_mapping / parse_synteny_mapping is `data[key]` itself (no filtered or "
        "rebuilt copy - an entry such as the root synteny must not be dropped), and the parsed mapping is not "
        "merged with another source (`{**parsed, **inferred}` lets a name-based guess override an explicit "
        "assignment)",
    )
    model = "model.reconciliation"
    mod = prog.module(model)
    n = 0
    for cname in ("ReconciliationInput", "SuperReconciliationInput", "ReconciliationOutput", "SuperReconciliationOutput"):
        cls = prog.cls(model, cname)
        fn = method_def(cls, "_from_dict")
        if fn is None:
            continue
        data = func_params(fn)[1] if len(func_params(fn)) > 1 else "data"
        for call in walk_no_nested(fn):
            if not (isinstance(call, ast.Call) and dotted(call.func) in ("parse_tree_mapping", "parse_synteny_mapping")):
                continue
            n += 1
            src = call.args[-1] if call.args else None
            key = None
            if isinstance(src, ast.Subscript) and dotted(src.value) == data and isinstance(src.slice, ast.Constant):
                key = src.slice.value
            construct = f"{model}:{cname}._from_dict/{dotted(call.func)}[{key or short(src, 30)}]"
            problems = []
            if key is None:
                inner_keys = [
                    x.slice.value for x in ast.walk(src)
                    if isinstance(x, ast.Subscript) and dotted(x.value) == data and isinstance(x.slice, ast.Constant)
                ] + [
                    x.args[0].value for x in ast.walk(src)
                    if isinstance(x, ast.Call) and isinstance(x.func, ast.Attribute) and x.func.attr == "get" and dotted(x.func.value) == data and x.args and isinstance(x.args[0], ast.Constant)
                ]
                if isinstance(src, ast.Call) and isinstance(src.func, ast.Attribute) and src.func.attr == "get" and dotted(src.func.value) == data:
                    pass  # data.get(key, {}) : the dictionary's own entry or nothing
                elif inner_keys:
                    problems.append(f"the parser is given `{short(src, 70)}`, a rebuilt copy of data[{inner_keys[0]!r}] (entries can be dropped or altered), not the entry itself")
                else:
                    raise AnalysisError(f"{construct}: source of the parsed mapping not recognised")
            par = mod.parent(call)
            if isinstance(par, ast.Attribute) or isinstance(par, (ast.comprehension, ast.DictComp, ast.ListComp, ast.SetComp, ast.GeneratorExp)) or (
                isinstance(par, ast.Call) and par is not call and dotted(par.func) in ("dict", "sorted", "list", "set", "frozenset")
            ):
                problems.append(f"the parsed mapping is post-processed (`{short(mod.parent(par) if isinstance(par, ast.Attribute) else par, 80)}`) before it is stored: what is read back is not what was written")
            if isinstance(par, ast.Dict):
                pos = next((i for i, (k, v) in enumerate(zip(par.keys, par.values)) if k is None and v is call), None)
                if pos is not None and pos < len(par.values) - 1:
                    problems.append(f"the parsed mapping is merged into `{short(par, 80)}` BEFORE another source: later entries win, so an explicit entry of the dictionary can be overridden")
            if isinstance(par, ast.BinOp) and isinstance(par.op, ast.BitOr) and par.left is call:
                problems.append(f"the parsed mapping is the left operand of `{short(par, 80)}`: the right operand wins on common keys")
            # the parsed mapping bound to a local that is then rebuilt (e.g. every synteny turned into a set)
            if isinstance(par, ast.Assign) and len(par.targets) == 1 and isinstance(par.targets[0], ast.Name):
                local0 = par.targets[0].id
                for later in walk_no_nested(fn):
                    if isinstance(later, ast.Assign) and later is not par and getattr(later, "lineno", 0) > par.lineno and any(isinstance(t, ast.Name) and t.id == local0 for t in later.targets):
                        if any(isinstance(n_, ast.Name) and n_.id == local0 for n_ in ast.walk(later.value)):
                            problems.append(f"the parsed mapping is rebuilt by `{short(later, 80)}` before it is stored: what is read back is not what was written (element order, container type)")
            # the parsed mapping bound to a local that is then overwritten in bulk / entry by entry from another source
            if isinstance(par, ast.Assign) and len(par.targets) == 1 and isinstance(par.targets[0], ast.Name):
                local = par.targets[0].id
                for later in walk_no_nested(fn):
                    if getattr(later, "lineno", 0) <= par.lineno:
                        continue
                    if isinstance(later, ast.Call) and isinstance(later.func, ast.Attribute) and later.func.attr == "update" and dotted(later.func.value) == local:
                        problems.append(f"the parsed mapping is then overwritten by `{short(later, 80)}`: entries of the other source win over the explicit ones")
                    elif isinstance(later, ast.AugAssign) and isinstance(later.op, ast.BitOr) and dotted(later.target) == local:
                        problems.append(f"the parsed mapping is then overwritten by `{short(later, 80)}`")
            if problems:
                res.fail(construct, "; ".join(problems), mod, call)
            else:
                res.ok(construct, f"parse of `{short(src, 40)}` alone")
    # every mapping field that to_dict writes is read back through its parser, from its own entry
    for cname in ("ReconciliationInput", "SuperReconciliationInput", "ReconciliationOutput", "SuperReconciliationOutput"):
        cls = prog.cls(model, cname)
        fn = method_def(cls, "_from_dict")
        if fn is None:
            continue
        data = func_params(fn)[1] if len(func_params(fn)) > 1 else "data"
        try:
            lit = _returned_dict(fn)
        except AnalysisError:
            continue
        parsed_keys = set()
        for call in walk_no_nested(fn):
            if isinstance(call, ast.Call) and dotted(call.func) in ("parse_tree_mapping", "parse_synteny_mapping") and call.args:
                src = call.args[-1]
                if isinstance(src, ast.Subscript) and dotted(src.value) == data and isinstance(src.slice, ast.Constant):
                    parsed_keys.add(src.slice.value)
        for k in lit.keys:
            if isinstance(k, ast.Constant) and k.value in ("leaf_object_species", "object_species", "leaf_syntenies", "syntenies"):
                construct = f"{model}:{cname}._from_dict/parsed-from-own-entry[{k.value}]"
                if k.value in parsed_keys:
                    res.ok(construct, f"parser applied to {data}[{k.value!r}]")
                else:
                    res.fail(construct, f"the field {k.value!r} is not the parse of `{data}[{k.value!r}]`: an explicit assignment written by to_dict goes through something else (an inference from names, a merge) on the way back", mod, fn)
    # parsing does not decorate the trees it builds
    for cname in ("ReconciliationInput", "SuperReconciliationInput", "ReconciliationOutput", "SuperReconciliationOutput"):
        cls = prog.cls(model, cname)
        for mname in ("_from_dict", "from_dict"):
            fn = method_def(cls, mname)
            if fn is None:
                continue
            construct = f"{model}:{cname}.{mname}/tree-as-written"
            # the method itself and the module-level helpers it calls (a `_read_tree(newick)` wrapper)
            bodies = [fn]
            for c in walk_no_nested(fn):
                if isinstance(c, ast.Call) and isinstance(c.func, ast.Name):
                    helper = resolve_callee(prog, mod, c.func)
                    if helper is not None and isinstance(helper[1], FuncNode) and helper[0] is mod and helper[1] not in bodies:
                        bodies.append(helper[1])
            deco = [
                c for body in bodies for c in walk_no_nested(body)
                if isinstance(c, ast.Call) and isinstance(c.func, ast.Attribute) and c.func.attr in TREE_EDITORS
            ] + [
                st for body in bodies for st in walk_no_nested(body)
                if isinstance(st, (ast.Assign, ast.AugAssign, ast.AnnAssign)) and any(
                    # any attribute of a node is part of what was read (`color` and every other NHX feature included)
                    isinstance(t, ast.Attribute) and _root_of(t) not in ("self", "cls")
                    for t in (st.targets if isinstance(st, ast.Assign) else [st.target])
                )
            ] + [
                c for body in bodies for c in walk_no_nested(body)
                if isinstance(c, ast.Call) and isinstance(c.func, ast.Name) and c.func.id in ("setattr", "delattr")
            ]
            if deco:
                res.fail(construct, f"`{short(deco[0], 70)}` alters the tree that was just parsed: writing it again does not reproduce the Newick string that was read", mod, deco[0])
            else:
                res.ok(construct, "the parsed trees are left as written")
    res.floor(4)
    return res


def sort_key_aligned(prog: Program) -> RuleResult:
    res = RuleResult(
        "SORT-KEY-ALIGNED",
        "the natural-sort key of sort_synteny keeps every part of the digit/non-digit split, empty ones included: "
        "`re.split` with a capture group alternates text and digit parts starting with a (possibly empty) text part, "
        "so position i has the same type in every key; filtering parts out misaligns them and comparing a name that "
        "starts with a digit with one that starts with a letter raises TypeError",
    )
    modname = "model.synteny"
    mod = prog.module(modname)
    fn = prog.func(modname, "sort_synteny")
    comps = [c for c in ast.walk(fn) if isinstance(c, (ast.ListComp, ast.GeneratorExp)) and any(
        isinstance(x, ast.Call) and isinstance(x.func, ast.Attribute) and x.func.attr == "isdigit" for x in ast.walk(c.elt))]
    if len(comps) != 1:
        raise AnalysisError("sort_synteny: key comprehension with `.isdigit()` not found")
    comp = comps[0]
    construct = f"{modname}:sort_synteny/key"
    if any(g.ifs for g in comp.generators):
        res.fail(construct, f"the key drops parts of the split (`{short(comp.generators[0].ifs[0])}`): text and digit positions no longer line up between names", mod, comp)
    else:
        # the iterated sequence, through local names, is the split itself
        keyfn = next((f for f in ast.walk(fn) if isinstance(f, (ast.FunctionDef, ast.Lambda)) and f is not fn and any(n is comp for n in ast.walk(f))), fn)
        src = comp.generators[0].iter
        seen = 0
        while isinstance(src, ast.Name) and seen < 5:
            seen += 1
            defs = [a for a in ast.walk(keyfn) if isinstance(a, ast.Assign) and any(isinstance(t, ast.Name) and t.id == src.id for t in a.targets)]
            if len(defs) != 1:
                raise AnalysisError(f"sort_synteny: `{src.id}` has {len(defs)} definitions")
            src = defs[0].value
        is_split = isinstance(src, ast.Call) and isinstance(src.func, ast.Attribute) and src.func.attr == "split"
        if is_split:
            res.ok(construct, short(comp, 90))
        elif any(isinstance(n, ast.Call) and isinstance(n.func, ast.Attribute) and n.func.attr == "split" for n in ast.walk(src)):
            res.fail(construct, f"the key is built from `{short(src)}`, not from every part of the split: dropping or re-arranging parts misaligns text and digit positions between names", mod, comp)
        else:
            raise AnalysisError(f"sort_synteny: key parts `{short(src)}` do not come from a split")
    # the result is a permutation of the argument: `sorted(<the synteny itself>, key=...)`, no detour through a
    # mapping keyed by the sort key (two families with the same key - cas1 / cas01 - would collapse into one)
    construct = f"{modname}:sort_synteny/permutation"
    param = func_params(fn)[0]
    rets = [r for r in fn.body if isinstance(r, ast.Return) and r.value is not None]
    if len(rets) != 1:
        raise AnalysisError("sort_synteny: single return expected")
    rv = rets[0].value
    if isinstance(rv, ast.Call) and dotted(rv.func) == "sorted" and rv.args and dotted(rv.args[0]) == param:
        res.ok(construct, f"sorted({param}, key=...)")
    elif any(isinstance(n_, (ast.Dict, ast.DictComp, ast.SetComp, ast.Set)) or (isinstance(n_, ast.Call) and dotted(n_.func) in ("dict", "set", "frozenset")) for st in fn.body for n_ in ast.walk(st) if not isinstance(st, ast.FunctionDef)):
        res.fail(construct, f"the sorted synteny is rebuilt through a mapping or a set (`{short(rv, 80)}`): families that share a sort key, or repeated ones, collapse", mod, rets[0])
    else:
        raise AnalysisError(f"sort_synteny: return `{short(rv)}` not recognised")
    return res

# ---------------------------------------------------------------------------
# class dispatch on the presence of a key


def dispatch_keys(prog: Program) -> RuleResult:
    res = RuleResult(
        "DISPATCH-KEYS",
        "wherever the command line chooses between a plain and a labelled model class by looking at the "
        "parsed JSON object, the branch that calls `Cls.from_dict(data)` is only reachable when every top-level "
        "key that Cls._from_dict reads unconditionally (beyond those of the alternative class) is present: the "
        "guard contains `\"k\" in data` as a conjunct for each such key",
    )
    model = "model.reconciliation"
    n = 0
    for modname in ("cli.draw", "cli.reconcile"):
        mod = prog.module(modname)
        for qual, fn in prog.defs(modname).items():
            if not isinstance(fn, ast.FunctionDef):
                continue
            calls = []
            for call in walk_no_nested(fn):
                if (
                    isinstance(call, ast.Call)
                    and isinstance(call.func, ast.Attribute)
                    and call.func.attr == "from_dict"
                    and isinstance(call.func.value, ast.Name)
                    and len(call.args) == 1
                ):
                    target = resolve_name(prog, mod, call.func.value.id)
                    if target and isinstance(target[1], ast.ClassDef):
                        calls.append((call, target))
            if len(calls) < 2:
                continue
            keysets = {}
            for call, (cmod, cls) in calls:
                keys, optional = _read_keys(prog, cmod, cls)
                keysets[cls.name] = keys - optional
            for call, (cmod, cls) in calls:
                others = [v for k, v in keysets.items() if k != cls.name]
                specific = keysets[cls.name] - set.intersection(*others) if others else set()
                data_name = dotted(call.args[0])
                construct = f"{modname}:{qual}/{cls.name}.from_dict"
                n += 1
                if not specific:
                    res.ok(construct, "reads no key beyond those of the alternative class", nontrivial=False)
                    continue
                gs = guards(fn, call)
                present = set()
                for test, pol in gs:
                    for lit, lpol in _conjunct_literals(test, pol):
                        if (
                            lpol
                            and isinstance(lit, ast.Compare)
                            and len(lit.ops) == 1
                            and isinstance(lit.ops[0], ast.In)
                            and isinstance(lit.left, ast.Constant)
                            and dotted(lit.comparators[0]) == data_name
                        ):
                            present.add(lit.left.value)
                missing = sorted(specific - present)
                if missing:
                    res.fail(
                        construct,
                        f"`{short(call)}` reads {missing} unconditionally but is reachable under "
                        f"`{' and '.join(('' if p else 'not ') + '(' + short(t, 80) + ')' for t, p in gs) or 'no guard'}`, "
                        "which does not guarantee these keys: an object without them raises KeyError",
                        mod,
                        call,
                    )
                else:
                    res.ok(construct, f"guarded by presence of {sorted(specific)}")
    if n < 4:
        raise AnalysisError(f"DISPATCH-KEYS: only {n} dispatch sites found (expected 4: draw and reconcile)")
    return res


def _conjunct_literals(test: ast.AST, pol: bool):
    """Literals that must hold when `test` has truth value `pol` (and: all when true; or: all negated when false)."""
    while isinstance(test, ast.UnaryOp) and isinstance(test.op, ast.Not):
        test, pol = test.operand, not pol
    if isinstance(test, ast.BoolOp):
        if isinstance(test.op, ast.And) and pol:
            for v in test.values:
                yield from _conjunct_literals(v, True)
            return
        if isinstance(test.op, ast.Or) and not pol:
            for v in test.values:
                yield from _conjunct_literals(v, False)
            return
        return
    if isinstance(test, ast.Compare) and len(test.ops) == 1 and isinstance(test.ops[0], ast.NotIn):
        yield ast.Compare(left=test.left, ops=[ast.In()], comparators=test.comparators), not pol
        return
    yield test, pol

# ---------------------------------------------------------------------------
# command line


CLI = "cli.reconcile"


def _is_label_call(stmt: ast.AST) -> Optional[str]:
    if isinstance(stmt, ast.Expr) and isinstance(stmt.value, ast.Call):
        f = stmt.value.func
        if isinstance(f, ast.Attribute) and f.attr == "label_internal":
            return dotted(f.value)
    return None


def _returns_labelled(prog: Program, mod: Module, fn: ast.AST, depth: int = 3) -> Tuple[bool, str]:
    """Every returned object has had label_internal() called on it on every path."""
    any_ret = False
    for path in paths(fn.body):
        if path.end != "return" or not consistent(path.conds):
            continue
        ret = path.events[-1]
        if not isinstance(ret, ast.Return) or ret.value is None:
            continue
        any_ret = True
        name = dotted(ret.value)
        if name is None:
            return False, f"returns `{short(ret.value)}`"
        labelled = any(_is_label_call(ev) == name for ev in path.events[:-1])
        if not labelled:
            return False, f"a path returns `{name}` without calling {name}.label_internal()"
    return any_ret, "every return path labels the returned input" if any_ret else "no return"


def label_pass(prog: Program) -> RuleResult:
    res = RuleResult(
        "LABEL-PASS",
        "label_internal() is called on the input before any registered algorithm receives it (on every path "
        "from the reconcile subcommand), and on every binary refinement before it is used",
    )
    mod = prog.module(CLI)
    rec = prog.func(CLI, "reconcile")
    calls = [c for c in calls_in(rec, nested=False) if dotted(c.func) == "call_algorithm"]
    if len(calls) != 1:
        raise AnalysisError("cli.reconcile.reconcile: call of call_algorithm not found")
    call = calls[0]
    ca = prog.func(CLI, "call_algorithm")
    ca_params = func_params(ca)
    arg = kwarg(call, ca_params[1], 1)
    construct = f"{CLI}:reconcile/input-labelled"
    labelled = False
    why = ""
    if isinstance(arg, ast.Name):
        # (1) labelled in reconcile itself before the call, on every path
        ok_paths = True
        for path in paths(rec.body):
            if not consistent(path.conds):
                continue
            idx = next((i for i, ev in enumerate(path.events) if any(n is call for n in ast.walk(ev))), None)
            if idx is None:
                continue
            if not any(_is_label_call(ev) == arg.id for ev in path.events[:idx]):
                ok_paths = False
        if ok_paths:
            labelled, why = True, "reconcile() calls label_internal() before call_algorithm"
        else:
            src = reaching(rec, arg.id, call)
            if isinstance(src, ast.Call):
                target = resolve_callee(prog, mod, src.func)
                if target and isinstance(target[1], FuncNode):
                    labelled, why = _returns_labelled(prog, target[0], target[1])
                    why = f"{target[1].name}(): {why}"
        if not labelled:
            # (3) labelled inside call_algorithm before every algo(...) call
            algo_calls = [c for c in calls_in(ca, nested=False) if isinstance(c.func, ast.Name) and c.func.id == "algo"]
            if algo_calls:
                okc = True
                for path in paths(ca.body):
                    if not consistent(path.conds):
                        continue
                    for i, ev in enumerate(path.events):
                        if any(n in algo_calls for n in ast.walk(ev)):
                            if not any(_is_label_call(e2) == ca_params[1] for e2 in path.events[:i]):
                                okc = False
                if okc:
                    labelled, why = True, "call_algorithm() labels its input before calling the algorithm"
    if labelled:
        res.ok(construct, why)
    else:
        res.fail(
            construct,
            "no call of label_internal() lies on the path reconcile -> read_input -> call_algorithm -> algorithm: "
            "algorithms that do not binarize (lca, thl, exh) serialise unnamed ancestors under the empty name"
            + (f" ({why})" if why else ""),
            mod,
            call,
        )
    # refinements
    n_loops = 0
    for modname in ("compute.super_reconciliation", "compute.unordered_super_reconciliation", "compute.reconciliation", "compute.exhaustive"):
        cmod = prog.module(modname)
        for qual, fn in prog.defs(modname).items():
            if not isinstance(fn, FuncNode):
                continue
            for loop in [n for n in walk_no_nested(fn) if isinstance(n, ast.For)]:
                if not any(isinstance(c.func, ast.Attribute) and c.func.attr == "binarize" for c in calls_in(loop.iter)):
                    continue
                if not isinstance(loop.target, ast.Name):
                    raise AnalysisError(f"{modname}:{qual}: loop over binarize() with a complex target")
                n_loops += 1
                var = loop.target.id
                construct = f"{modname}:{qual}/for[{var}]"
                first_use = None
                labelled_at = None
                for idx, stmt in enumerate(loop.body):
                    if _is_label_call(stmt) == var:
                        labelled_at = idx
                        break
                    if any(isinstance(n, ast.Name) and n.id == var for n in ast.walk(stmt)):
                        first_use = stmt
                        break
                if labelled_at is not None:
                    res.ok(construct, f"{var}.label_internal() precedes every use of {var}")
                else:
                    res.fail(
                        construct,
                        f"the refinement `{var}` is used (`{short(first_use, 60)}`) before / without "
                        f"{var}.label_internal(): nodes created by binarize() have no name and collide in mappings",
                        cmod,
                        loop,
                    )
    if n_loops < 2:
        raise AnalysisError("LABEL-PASS: loops over binarize() not found")
    return res


def label_guard(prog: Program) -> RuleResult:
    res = RuleResult(
        "LABEL-GUARD",
        "label_internal only names unnamed nodes, follows the documented O# / S# scheme per tree, walks in pre-order, "
        "and tests each generated name in a loop against the names of ALL nodes of the tree (`name in <tree>`, or a set "
        "built from every node and kept up to date) before assigning it",
    )
    mod = prog.module(MODEL)
    cls = prog.cls(MODEL, "ReconciliationInput")
    fn = method_def(cls, "label_internal")
    if fn is None:
        raise AnalysisError("label_internal not found")
    loops = [n for n in walk_no_nested(fn) if isinstance(n, ast.For)]
    expected_prefix = {"object_tree": "O", "tree": "S"}
    seen_prefixes: Dict[str, str] = {}
    for loop in loops:
        it = loop.iter
        if not (isinstance(it, ast.Call) and isinstance(it.func, ast.Attribute) and it.func.attr == "traverse"):
            continue
        tree_expr = it.func.value
        var = dotted(loop.target)
        # the tree(s) and prefix(es) this loop handles: directly, or through an outer loop over (tree, prefix) pairs
        bindings: List[Tuple[str, Optional[str]]] = []  # (tree dotted name, literal prefix or None)
        outer = next(
            (o for o in loops if o is not loop and flow_contains(o, loop) and isinstance(o.iter, (ast.Tuple, ast.List)) and isinstance(o.target, ast.Tuple)),
            None,
        )
        prefix_var = None
        if isinstance(tree_expr, ast.Name) and outer is not None:
            names = [dotted(e) for e in outer.target.elts]
            if tree_expr.id in names:
                ti = names.index(tree_expr.id)
                for elt in outer.iter.elts:
                    if not (isinstance(elt, ast.Tuple) and len(elt.elts) == len(names)):
                        raise AnalysisError("label_internal: outer loop is not over (tree, prefix) pairs")
                    pref = next((e.value for k, e in enumerate(elt.elts) if k != ti and isinstance(e, ast.Constant) and isinstance(e.value, str)), None)
                    bindings.append((dotted(elt.elts[ti]) or "", pref))
                prefix_var = next((nm for k, nm in enumerate(names) if k != ti), None)
        if not bindings:
            bindings = [(dotted(tree_expr) or "", None)]
        label = "+".join(b[0].split(".", 1)[-1] for b in bindings)
        base = f"{MODEL}:ReconciliationInput.label_internal/{label}"
        strat = kwarg(it, "strategy", 0)
        if isinstance(strat, ast.Constant) and strat.value == "preorder":
            res.ok(f"{base}/order", "preorder")
        else:
            res.fail(
                f"{base}/order",
                f"nodes are numbered in `{short(strat) if strat is not None else 'levelorder (default)'}` order, "
                "the documentation promises pre-order",
                mod,
                loop,
            )
        assigns = [
            n
            for n in walk_no_nested(loop)
            if isinstance(n, ast.Assign)
            and isinstance(n.targets[0], ast.Attribute)
            and n.targets[0].attr == "name"
            and dotted(n.targets[0].value) == var
        ]
        if len(assigns) != 1:
            raise AnalysisError(f"{base}: expected one assignment to {var}.name")
        asg = assigns[0]
        gs = guards(fn, asg)
        from ..canon import _not as _negated

        if any(_is_unnamed_test(g if pol else _negated(g), var) for g, pol in gs):
            res.ok(f"{base}/only-unnamed", "assignment guarded by the unnamed test")
        else:
            res.fail(
                f"{base}/only-unnamed",
                f"`{short(asg)}` is not guarded by `not {var}.name`: existing names are overwritten",
                mod,
                asg,
            )
        # prefix
        value = asg.value
        counter = None
        prefixes: List[Optional[str]] = []
        if isinstance(value, ast.JoinedStr) and len(value.values) == 2:
            head, fv = value.values
            if isinstance(fv, ast.FormattedValue):
                counter = dotted(fv.value)
            if isinstance(head, ast.Constant):
                prefixes = [head.value for _b in bindings]
            elif isinstance(head, ast.FormattedValue) and dotted(head.value) == prefix_var:
                prefixes = [b[1] for b in bindings]
        bad_prefix = []
        for (tname, _p), got in zip(bindings, prefixes or [None] * len(bindings)):
            want = expected_prefix.get(tname.rsplit(".", 1)[-1])
            seen_prefixes[tname.rsplit(".", 1)[-1]] = got or "?"
            if not want or got != want:
                bad_prefix.append(f"{tname}: `{got}`# instead of {want}#")
        if not bad_prefix:
            res.ok(f"{base}/prefix", "names follow the documented O# / S# scheme")
        else:
            res.fail(f"{base}/prefix", f"generated name `{short(value)}` does not follow the documented scheme ({'; '.join(bad_prefix)})", mod, asg)
        # collision loop just before, same block
        block = None
        for node in ast.walk(loop):
            for fname in ("body", "orelse"):
                blk = getattr(node, fname, None)
                if isinstance(blk, list) and asg in blk:
                    block = blk
        verdict = "the generated name is assigned without first testing, in a loop, that no node of the tree already carries it"
        ok_collision = False
        if block is not None:
            pos = block.index(asg)
            for prev in block[:pos]:
                if not (isinstance(prev, ast.While) and isinstance(prev.test, ast.Compare) and len(prev.test.ops) == 1):
                    continue
                t = prev.test
                if not (isinstance(t.ops[0], ast.In) and (ast.dump(t.left) == ast.dump(value) or (_name_template(value) is not None and _name_template(t.left) == _name_template(value)))):
                    continue
                incr = [n for n in prev.body if isinstance(n, ast.AugAssign) and dotted(n.target) == counter and isinstance(n.op, ast.Add)]
                if not incr:
                    continue
                cont = t.comparators[0]
                if ast.dump(cont) == ast.dump(tree_expr):
                    ok_collision = True  # ete3: `name in tree` looks at every node
                    break
                pool = dotted(cont)
                pool_def = reaching(fn, pool, prev) if pool else None
                if isinstance(pool_def, (ast.SetComp, ast.ListComp)) or (isinstance(pool_def, ast.Call) and dotted(pool_def.func) in ("set", "list") and pool_def.args and isinstance(pool_def.args[0], (ast.GeneratorExp, ast.SetComp, ast.ListComp))):
                    comp = pool_def if isinstance(pool_def, (ast.SetComp, ast.ListComp)) else pool_def.args[0]
                    gen = comp.generators[0]
                    over_all = (
                        isinstance(gen.iter, ast.Call) and isinstance(gen.iter.func, ast.Attribute) and gen.iter.func.attr == "traverse"
                        and ast.dump(gen.iter.func.value) == ast.dump(tree_expr)
                    ) or ast.dump(gen.iter) == ast.dump(tree_expr) and False
                    names_elt = isinstance(comp.elt, ast.Attribute) and comp.elt.attr == "name" and dotted(comp.elt.value) == dotted(gen.target)
                    kept = any(
                        isinstance(c, ast.Call) and isinstance(c.func, ast.Attribute) and c.func.attr == "add" and dotted(c.func.value) == pool
                        for st2 in block[pos:] for c in ast.walk(st2)
                    )
                    if not over_all or not names_elt:
                        verdict = f"the set `{pool}` the candidate is tested against is not built from the names of every node of the tree (`{short(pool_def, 70)}`)"
                    elif gen.ifs:
                        verdict = f"the set `{pool}` the candidate is tested against leaves nodes out (`if {short(gen.ifs[0])}`): a generated name can collide with one of them"
                    elif not kept:
                        verdict = f"the set `{pool}` is not updated with the names that are assigned: two unnamed nodes can receive the same name"
                    else:
                        ok_collision = True
                    break
                leafy = [
                    c for c in ast.walk(pool_def) if pool_def is not None and not isinstance(pool_def, Opaque)
                    and isinstance(c, ast.Call) and isinstance(c.func, ast.Attribute)
                    and c.func.attr in ("get_leaf_names", "iter_leaf_names", "get_leaves", "iter_leaves")
                ] if pool_def is not None and not isinstance(pool_def, Opaque) else []
                if leafy:
                    verdict = f"the set `{pool}` the candidate is tested against holds the leaf names only (`{short(pool_def, 60)}`): a generated name can collide with an ancestor that is already named"
                    break
                raise AnalysisError(f"{base}: collision test against `{short(cont)}` is not understood")
            else:
                # an `if` instead of a `while`
                for prev in block[:pos]:
                    if isinstance(prev, ast.If) and isinstance(prev.test, ast.Compare) and ast.dump(prev.test.left) == ast.dump(value):
                        verdict = "the candidate name is tested once (`if`), not in a loop: only one taken name is skipped"
        if ok_collision:
            res.ok(f"{base}/collision", "candidate name tested against every node's name in a loop before assignment")
        else:
            res.fail(f"{base}/collision", verdict, mod, asg)
    missing = [t for t in expected_prefix if t not in seen_prefixes]
    if missing:
        raise AnalysisError(f"LABEL-GUARD: no labelling loop found for {missing}")
    res.floor(4)
    return res


def flow_contains(outer: ast.AST, inner: ast.AST) -> bool:
    return any(n is inner for n in ast.walk(outer))


def _is_unnamed_test(test: ast.AST, var: str) -> bool:
    parts = test.values if isinstance(test, ast.BoolOp) and isinstance(test.op, ast.Or) else [test]
    for p in parts:
        if (
            isinstance(p, ast.UnaryOp)
            and isinstance(p.op, ast.Not)
            and isinstance(p.operand, ast.Attribute)
            and p.operand.attr == "name"
            and dotted(p.operand.value) == var
        ):
            return all(_mentions_only_name(q, var) for q in parts)
    return False


def _mentions_only_name(test: ast.AST, var: str) -> bool:
    """Each disjunct is a test on <var>.name only (so the guard is not weaker than 'unnamed')."""
    if isinstance(test, ast.UnaryOp) and isinstance(test.op, ast.Not):
        return isinstance(test.operand, ast.Attribute) and test.operand.attr == "name"
    if isinstance(test, ast.Compare) and len(test.ops) == 1 and isinstance(test.ops[0], ast.Eq):
        left, right = test.left, test.comparators[0]
        if isinstance(left, ast.Attribute) and left.attr == "name" and isinstance(right, ast.Constant):
            return right.value in ("NoName", "")
    return False


def choices_enum(prog: Program) -> RuleResult:
    res = RuleResult(
        "CHOICES-ENUM",
        "every string offered as a command-line choice and turned into an enum member by name upper-cases to a "
        "member of that enum, and the default is one of the choices",
    )
    n = 0
    for modname in ("cli.reconcile", "cli.draw"):
        mod = prog.module(modname)
        # option name -> (choices, default, node)
        options: Dict[str, Tuple[List[str], Optional[str], ast.Call]] = {}
        for node in ast.walk(mod.tree):
            if isinstance(node, ast.Call) and isinstance(node.func, ast.Attribute) and node.func.attr == "add_argument":
                if node.args and isinstance(node.args[0], ast.Constant) and isinstance(node.args[0].value, str):
                    opt = node.args[0].value.lstrip("-").replace("-", "_")
                    ch = kwarg(node, "choices")
                    if isinstance(ch, (ast.Tuple, ast.List, ast.Set)) and all(isinstance(e, ast.Constant) for e in ch.elts):
                        default = kwarg(node, "default")
                        options[opt] = (
                            [e.value for e in ch.elts],
                            default.value if isinstance(default, ast.Constant) else None,
                            node,
                        )
        for node in ast.walk(mod.tree):
            enum_name = None
            key = None
            if isinstance(node, ast.Call) and dotted(node.func) == "getattr" and len(node.args) == 2:
                enum_name, key = dotted(node.args[0]), node.args[1]
            elif isinstance(node, ast.Subscript) and isinstance(node.value, ast.Name):
                enum_name, key = node.value.id, node.slice
            if enum_name is None or key is None:
                continue
            if not (
                isinstance(key, ast.Call)
                and isinstance(key.func, ast.Attribute)
                and key.func.attr == "upper"
                and isinstance(key.func.value, ast.Attribute)
                and dotted(key.func.value.value) == "args"
            ):
                continue
            opt = key.func.value.attr
            target = resolve_name(prog, mod, enum_name)
            if not target or not isinstance(target[1], ast.ClassDef):
                raise AnalysisError(f"{modname}: enum `{enum_name}` not resolved")
            members = set(enum_members(target[1]))
            if opt not in options:
                raise AnalysisError(f"{modname}: option `{opt}` with literal choices not found")
            choices, default, decl = options[opt]
            n += 1
            construct = f"{modname}:--{opt}/{enum_name}"
            bad = [c for c in choices if c.upper() not in members]
            if bad:
                res.fail(
                    construct,
                    f"choice(s) {bad} of --{opt} do not name a member of {enum_name} {sorted(members)}: "
                    "selecting them raises AttributeError/KeyError",
                    mod,
                    decl,
                )
            elif default is not None and default not in choices:
                res.fail(construct, f"default {default!r} of --{opt} is not among its choices {choices}", mod, decl)
            else:
                res.ok(construct, f"{choices} -> {sorted(c.upper() for c in choices)}")
    if n < 2:
        raise AnalysisError("CHOICES-ENUM: --solutions / --orientation conversions not found")
    return res


def _registry(prog: Program) -> Tuple[Module, ast.Dict]:
    mod = prog.module(CLI)
    for node in mod.tree.body:
        if isinstance(node, ast.Assign) and dotted(node.targets[0]) == "algorithms" and isinstance(node.value, ast.Dict):
            return mod, node.value
    raise AnalysisError("cli.reconcile: `algorithms` registry not found")


def registry_signature(prog: Program) -> RuleResult:
    res = RuleResult(
        "REGISTRY-SIGNATURE",
        "every registered algorithm has a first parameter annotated ReconciliationInput or "
        "SuperReconciliationInput and either no second parameter or one annotated RetentionPolicy - the only "
        "shapes call_algorithm dispatches",
    )
    mod, reg = _registry(prog)
    for k, v in zip(reg.keys, reg.values):
        key = k.value if isinstance(k, ast.Constant) else short(k)
        construct = f"{CLI}:algorithms[{key}]"
        target = resolve_callee(prog, mod, v)
        if not target or not isinstance(target[1], FuncNode):
            res.fail(construct, f"`{short(v)}` does not resolve to a function of the package", mod, v)
            continue
        fn = target[1]
        args = fn.args.args
        problems = []
        if not args or args[0].annotation is None or dotted(args[0].annotation) not in ("ReconciliationInput", "SuperReconciliationInput"):
            problems.append("first parameter is not annotated with an input class")
        if len(args) == 2 and (args[1].annotation is None or dotted(args[1].annotation) != "RetentionPolicy"):
            problems.append("second parameter is not annotated RetentionPolicy (call_algorithm returns None: exit 1)")
        if len(args) > 2:
            required = [a for a in args[2:]][: len(args) - 2 - len(fn.args.defaults)]
            problems.append("more than two parameters (call_algorithm returns None: exit 1)")
        if not (fn.body and isinstance(fn.body[0], ast.Expr) and isinstance(fn.body[0].value, ast.Constant) and isinstance(fn.body[0].value.value, str)):
            problems.append("no docstring (add_args dereferences impl.__doc__)")
        if problems:
            res.fail(construct, f"{fn.name}: " + "; ".join(problems), target[0], fn)
        else:
            res.ok(construct, f"{fn.name}({', '.join(a.arg + ': ' + (dotted(a.annotation) or '?') for a in args)})")
    res.floor(7)
    return res


def error_path(prog: Program) -> RuleResult:
    res = RuleResult(
        "ERROR-PATH",
        "a super-reconciliation algorithm given an input without syntenies returns None before the algorithm is "
        "called; reconcile() writes results only when there are some and returns 1 otherwise",
    )
    mod = prog.module(CLI)
    ca = prog.func(CLI, "call_algorithm")
    n_err = 0
    for path in paths(ca.body):
        if not consistent(path.conds):
            continue
        on_error = any(_is_annotation_cmp(c, ast.NotEq) and pol for c, pol in path.conds) and any(
            _is_annotation_cmp(c, ast.Eq) and not pol for c, pol in path.conds
        )
        if not on_error:
            continue
        n_err += 1
        called = [ev for ev in path.events if any(isinstance(n, ast.Call) and dotted(n.func) == "algo" for n in ast.walk(ev))]
        last = path.events[-1] if path.events else None
        returns_none = (
            path.end == "return"
            and isinstance(last, ast.Return)
            and (last.value is None or (isinstance(last.value, ast.Constant) and last.value.value is None))
        )
        construct = f"{CLI}:call_algorithm/needs-syntenies-path#{n_err}"
        if called:
            res.fail(construct, "the algorithm is still called on the 'needs leaf syntenies' path", mod, called[0])
        elif not returns_none:
            res.fail(construct, "the 'needs leaf syntenies' path does not return None", mod, last)
        else:
            res.ok(construct, "returns None before any call of the algorithm")
    if n_err == 0:
        raise AnalysisError("ERROR-PATH: the 'needs leaf syntenies' branch of call_algorithm was not recognised")
    rec = prog.func(CLI, "reconcile")
    dumps = [c for c in calls_in(rec, nested=False) if dotted(c.func) == "dump_results"]
    if not dumps:
        raise AnalysisError("ERROR-PATH: reconcile() does not call dump_results")
    for d in dumps:
        results = dotted(d.args[1]) if len(d.args) > 1 else None
        gs = guards(rec, d)
        okg = any(_none_cmp(g, results) is not None and _none_cmp(g, results) != pol for g, pol in gs)
        construct = f"{CLI}:reconcile/dump-guard"
        if okg:
            res.ok(construct, f"dump_results dominated by `{results} is not None`")
        else:
            res.fail(construct, f"`{short(d)}` is reached when `{results}` is None", mod, d)
    # (the exit status itself is decided by CLI-FLOW-TABLE, which follows local names)
    # run(): the status is propagated
    main = prog.module("cli.__main__")
    run = prog.func("cli.__main__", "run")
    rets = [n for n in walk_no_nested(run) if isinstance(n, ast.Return)]
    def _status_call(v: ast.AST) -> bool:
        if isinstance(v, ast.Name):
            got = reaching(run, v.id, v)
            v = got if got is not None and not isinstance(got, Opaque) else v
        return isinstance(v, ast.Call) and isinstance(v.func, ast.Attribute) and v.func.attr == "func"

    if rets and all(r.value is not None and _status_call(r.value) for r in rets):
        res.ok("cli.__main__:run/status", "returns args.func(args)")
    else:
        res.fail("cli.__main__:run/status", "the subcommand's status is not returned by run()", main, run)
    exits = [c for c in calls_in(main.tree) if dotted(c.func) == "sys.exit"]
    if exits and any(isinstance(c.args[0], ast.Call) and dotted(c.args[0].func) == "run" for c in exits if c.args):
        res.ok("cli.__main__:exit", "sys.exit(run())")
    else:
        res.fail("cli.__main__:exit", "the process does not exit with run()'s status", main, None)
    return res


def _is_annotation_cmp(test: ast.AST, op) -> bool:
    return (
        isinstance(test, ast.Compare)
        and len(test.ops) == 1
        and isinstance(test.ops[0], op)
        and any(isinstance(side, ast.Attribute) and side.attr == "annotation" for side in (test.left, test.comparators[0]))
    )


def _none_cmp(test: ast.AST, name: Optional[str]) -> Optional[bool]:
    """True for `<name> is None`, False for `<name> is not None`."""
    if isinstance(test, ast.Compare) and len(test.ops) == 1:
        right = test.comparators[0]
        if isinstance(right, ast.Constant) and right.value is None and (name is None or dotted(test.left) == name):
            if isinstance(test.ops[0], (ast.Is, ast.Eq)):
                return True
            if isinstance(test.ops[0], (ast.IsNot, ast.NotEq)):
                return False
    return None


def cost_options(prog: Program) -> RuleResult:
    res = RuleResult(
        "COST-OPTIONS",
        "one command-line cost option per unit cost: keys of cost_events = keys of get_default_cost() = the cost "
        "keys the evaluator reads; every option name is distinct",
    )
    mod = prog.module(CLI)
    cost_events = None
    table_name = None
    rows: List[Tuple[str, str]] = []  # (event member, option name)
    for node in mod.tree.body:
        if not (isinstance(node, ast.Assign) and isinstance(node.targets[0], ast.Name)):
            continue
        val = node.value
        found: List[Tuple[str, str]] = []
        if isinstance(val, ast.Dict):
            for k, v in zip(val.keys, val.values):
                ev = dotted(k) if k is not None else None
                if ev and ev.split(".")[0] in ("NodeEvent", "EdgeEvent") and isinstance(v, ast.Tuple):
                    opts = [e.value for e in v.elts if isinstance(e, ast.Constant) and isinstance(e.value, str) and " " not in e.value]
                    if len(opts) == 1:
                        found.append((ev.split(".")[1], opts[0]))
        elif isinstance(val, (ast.Tuple, ast.List)):
            for row in val.elts:
                if isinstance(row, ast.Tuple):
                    evs = [dotted(e) for e in row.elts if dotted(e) and dotted(e).split(".")[0] in ("NodeEvent", "EdgeEvent")]
                    opts = [e.value for e in row.elts if isinstance(e, ast.Constant) and isinstance(e.value, str) and " " not in e.value]
                    if len(evs) == 1 and len(opts) == 1:
                        found.append((evs[0].split(".")[1], opts[0]))
        if len(found) >= 3:
            cost_events, table_name, rows = val, node.targets[0].id, found
    if cost_events is None:
        raise AnalysisError("cli.reconcile: table of cost options (event, option name, description) not found")
    cli_keys = [ev for ev, _o in rows]
    optnames = [o for _ev, o in rows]
    # the documented option of each unit cost (README: --cost-spe / -dup / -hgt / -floss / -sloss)
    DOCUMENTED = {"SPECIATION": "spe", "DUPLICATION": "dup", "HORIZONTAL_TRANSFER": "hgt", "FULL_LOSS": "floss", "SEGMENTAL_LOSS": "sloss"}
    crossed = [(ev, o) for ev, o in rows if DOCUMENTED.get(ev) not in (None, o)]
    construct = f"{CLI}:cost_events/option-of-each-cost"
    if crossed:
        ev, o = crossed[0]
        res.fail(construct, f"--cost-{o} sets the cost of {ev} (documented: --cost-{DOCUMENTED[ev]}): the minimum that is printed is computed under another cost vector than the one requested", mod, cost_events)
    else:
        res.ok(construct, ", ".join(f"--cost-{o} -> {ev}" for ev, o in rows))
    gd = prog.func(MODEL, "get_default_cost")
    d = _returned_dict(gd)
    default_keys = [dotted(k).split(".")[1] for k in d.keys if dotted(k)]
    out_cls = prog.cls(MODEL, "ReconciliationOutput")
    sup = prog.cls(MODEL, "SuperReconciliationOutput")
    eval_keys: Set[str] = set()
    for cls, names in ((out_cls, ["_cost_rec"]), (sup, ["_ordered_labeling_cost", "_unordered_labeling_cost"])):
        for name in names:
            fn = method_def(cls, name)
            if fn is not None:
                eval_keys |= cm.cost_keys_in(fn)
    construct = f"{CLI}:cost_events/keys"
    if set(cli_keys) == set(default_keys) == eval_keys and len(cli_keys) == len(set(cli_keys)):
        res.ok(construct, f"{sorted(cli_keys)}")
    else:
        res.fail(
            construct,
            f"cost options {sorted(cli_keys)}, default costs {sorted(default_keys)} and evaluator keys "
            f"{sorted(eval_keys)} differ",
            mod,
            cost_events,
        )
    construct = f"{CLI}:cost_events/option-names"
    if len(optnames) == len(cli_keys) and len(set(optnames)) == len(optnames):
        res.ok(construct, f"{optnames}")
    else:
        res.fail(construct, f"option names {optnames} are not one distinct name per cost", mod, cost_events)
    # read_input reads cost_<argname> for each entry and stores it under the event key
    ri = prog.func(CLI, "read_input")
    ok_read = False
    for node in walk_no_nested(ri):
        if isinstance(node, ast.Assign) and isinstance(node.targets[0], ast.Subscript):
            t = node.targets[0]
            if isinstance(t.slice, ast.Constant) and t.slice.value == "costs":
                text = ast.unparse(node.value)
                if table_name in text and "getattr(args" in text and "cost_{" in text:
                    ok_read = True
    if ok_read:
        res.ok(f"{CLI}:read_input/costs", "data['costs'] built from every cost option")
    else:
        res.fail(f"{CLI}:read_input/costs", "the cost options are not copied into the input's costs", mod, ri)
    return res


def cli_cost_source(prog: Program) -> RuleResult:
    res = RuleResult(
        "CLI-COST-SOURCE",
        "the printed 'Minimum cost' is .cost() of an element of the list that is returned and written",
    )
    mod = prog.module(CLI)
    ca = prog.func(CLI, "call_algorithm")
    prints = [
        c
        for c in calls_in(ca, nested=False)
        if dotted(c.func) == "print" and any(
            (isinstance(a, ast.Constant) and isinstance(a.value, str) and "cost" in a.value.lower())
            or (isinstance(a, ast.JoinedStr) and any(isinstance(v, ast.Constant) and isinstance(v.value, str) and "cost" in v.value.lower() for v in a.values))
            for a in c.args
        )
    ]
    if len(prints) != 1:
        raise AnalysisError("call_algorithm: the 'Minimum cost' print was not found")
    pr = prints[0]
    cost_arg = next((a for a in pr.args if not isinstance(a, ast.Constant)), None)
    if isinstance(cost_arg, ast.JoinedStr):
        # the message written as one f-string: the interpolated value is what is printed
        fields = [v for v in cost_arg.values if isinstance(v, ast.FormattedValue)]
        if len(fields) != 1:
            raise AnalysisError("call_algorithm: the 'Minimum cost' message interpolates more than one value")
        if fields[0].format_spec is not None or fields[0].conversion != -1:
            res.fail(
                f"{CLI}:call_algorithm/printed-as-is",
                f"the minimum is printed through `{short(fields[0], 60)}`: a format specification keeps a fixed number of digits, so the "
                "printed number is not the cost of the solutions that are written",
                mod,
                pr,
            )
        cost_arg = fields[0].value
    rets = [n for n in walk_no_nested(ca) if isinstance(n, ast.Return) and isinstance(n.value, ast.Name)]
    ret_names = {r.value.id for r in rets}
    ok = (
        isinstance(cost_arg, ast.Call)
        and isinstance(cost_arg.func, ast.Attribute)
        and cost_arg.func.attr == "cost"
        and not cost_arg.args
        and isinstance(cost_arg.func.value, ast.Subscript)
        and dotted(cost_arg.func.value.value) in ret_names
    )
    construct = f"{CLI}:call_algorithm/printed-cost"
    if ok:
        res.ok(construct, f"prints {short(cost_arg)} and returns `{dotted(cost_arg.func.value.value)}`")  # type: ignore[union-attr]
    else:
        res.fail(
            construct,
            f"the printed cost `{short(cost_arg)}` is not .cost() of an element of the returned list {sorted(ret_names)}",
            mod,
            pr,
        )
    rec = prog.func(CLI, "reconcile")
    dumps = [c for c in calls_in(rec, nested=False) if dotted(c.func) == "dump_results"]
    flow_ok = False
    for d in dumps:
        if len(d.args) > 1 and isinstance(d.args[1], ast.Name):
            src = reaching(rec, d.args[1].id, d)
            if isinstance(src, ast.Call) and dotted(src.func) == "call_algorithm":
                flow_ok = True
    construct = f"{CLI}:reconcile/written-results"
    if flow_ok:
        res.ok(construct, "dump_results receives call_algorithm's list")
    else:
        res.fail(construct, "dump_results does not receive the list returned by call_algorithm", mod, rec)
    # dump_results writes every element through to_dict
    dr = prog.func(CLI, "dump_results")
    loops = [n for n in walk_no_nested(dr) if isinstance(n, ast.For)]
    okd = False
    for loop in loops:
        if dotted(loop.iter) == func_params(dr)[1] and isinstance(loop.target, ast.Name):
            text = ast.unparse(loop)
            if f"{loop.target.id}.to_dict()" in text and "json.dump" in text:
                if not any(isinstance(n, (ast.Break, ast.Continue, ast.Return)) for n in walk_no_nested(loop)):
                    okd = True
    construct = f"{CLI}:dump_results/each"
    if okd:
        res.ok(construct, "one json.dump(result.to_dict()) per result")
    else:
        res.fail(construct, "dump_results does not write every result through to_dict()", mod, dr)
    return res


RULES = {
    "FIELD-SOURCE": field_source,
    "SORT-KEY-ALIGNED": sort_key_aligned,
    "COST-TRUTH": cost_truth,
    "ORDER-PRESERVED": order_preserved,
    "DISPATCH-KEYS": dispatch_keys,
    "COST-PASSTHROUGH": cost_passthrough,
    "DICT-KEYS": dict_keys,
    "FIELDS-SERIALISED": fields_serialised,
    "TREE-WRITE-ARGS": tree_write_args,
    "ENUM-DISJOINT": enum_disjoint,
    "MAPPING-KEYING": mapping_keying,
    "LABEL-PASS": label_pass,
    "LABEL-GUARD": label_guard,
    "CHOICES-ENUM": choices_enum,
    "REGISTRY-SIGNATURE": registry_signature,
    "ERROR-PATH": error_path,
    "COST-OPTIONS": cost_options,
    "CLI-COST-SOURCE": cli_cost_source,
}
