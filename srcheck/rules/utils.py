"""Rules on utils/toposort.py, utils/disjoint_set.py, utils/trees.py and the precedence graph (C08, C19, C20)."""
from __future__ import annotations

import ast
from typing import Dict, List, Optional, Set, Tuple

from ..core import (
    AnalysisError,
    FuncNode,
    Module,
    Program,
    RuleResult,
    ast_eq,
    calls_in,
    dotted,
    func_params,
    kwarg,
    short,
    walk_no_nested,
)
from ..flow import Opaque, conditions, guards, loops_around, reaching
from ..resolve import method_def, resolve_callee

TOPO = "utils.toposort"
TREES = "utils.trees"


def _indeg_step(loop: ast.AST, table: Optional[str] = None) -> Optional[Tuple[str, str, int]]:
    """(table name, op '+'/'-', amount) if the loop body updates table[loopvar] by a constant."""
    if not isinstance(loop, ast.For) or not isinstance(loop.target, ast.Name):
        return None
    for node in walk_no_nested(loop):
        if (
            isinstance(node, ast.AugAssign)
            and isinstance(node.target, ast.Subscript)
            and isinstance(node.target.value, ast.Name)
            and dotted(node.target.slice) == loop.target.id
            and isinstance(node.value, ast.Constant)
            and isinstance(node.op, (ast.Add, ast.Sub))
        ):
            if table is None or node.target.value.id == table:
                return node.target.value.id, "+" if isinstance(node.op, ast.Add) else "-", node.value.value
    return None


def restore_pairing(prog: Program) -> RuleResult:
    res = RuleResult(
        "RESTORE-PAIRING",
        "in the backtracking enumeration every in-degree decrement made before the recursive call is undone "
        "after it, over the same successors and by the same amount, on every path of the iteration",
    )
    mod = prog.module(TOPO)
    fn = prog.func(TOPO, "_toposort_all_bt")
    outer = [n for n in fn.body if isinstance(n, ast.For)]
    if len(outer) != 1:
        raise AnalysisError("_toposort_all_bt: outer loop over the start nodes not found")
    body = outer[0].body
    dec = [(i, s, _indeg_step(s)) for i, s in enumerate(body) if _indeg_step(s) and _indeg_step(s)[1] == "-"]
    rec = [
        i
        for i, s in enumerate(body)
        if any(isinstance(c.func, ast.Name) and c.func.id == fn.name for c in calls_in(s))
    ]
    if not dec or not rec:
        raise AnalysisError("_toposort_all_bt: decrement loop / recursive call not recognised")
    for didx, dloop, (table, _op, amount) in dec:
        construct = f"{TOPO}:_toposort_all_bt/indeg[{short(dloop.iter, 30)}]"
        after = [i for i in rec if i > didx]
        if not after:
            res.fail(construct, "the in-degrees are decremented after the recursive call, not before", mod, dloop)
            continue
        ridx = after[0]
        restores = [
            (i, s)
            for i, s in enumerate(body)
            if i > ridx and _indeg_step(s, table) and _indeg_step(s, table)[1] == "+"
        ]
        good = [
            (i, s)
            for i, s in restores
            if ast_eq(s.iter, dloop.iter) and _indeg_step(s, table)[2] == amount
        ]
        if not good:
            why = (
                "no loop restores the in-degrees after the recursive call"
                if not restores
                else f"the restore loop iterates `{short(restores[0][1].iter)}` / adds {_indeg_step(restores[0][1], table)[2]} "
                f"instead of `{short(dloop.iter)}` / {amount}"
            )
            res.fail(
                construct,
                f"{why}: the shared table `{table}` stays modified for the next start node and orderings are lost",
                mod,
                dloop,
            )
            continue
        # nothing may leave the iteration between the decrement and the restore
        lo, hi = didx, good[0][0]
        escapes = []
        for stmt in body[lo : hi + 1]:
            for node in walk_no_nested(stmt):
                if isinstance(node, ast.Return):
                    escapes.append(node)
                if isinstance(node, (ast.Continue, ast.Break)):
                    inner = [l for l in loops_around(fn, node) if l is not outer[0]]
                    if not inner:
                        escapes.append(node)
        # the restore must be unconditional
        if escapes:
            res.fail(
                construct,
                f"`{short(escapes[0])}` leaves the iteration between the decrement and the restore of `{table}`",
                mod,
                escapes[0],
            )
        elif conditions(fn, good[0][1]) != conditions(fn, dloop):
            res.fail(construct, "the restore loop is conditional", mod, good[0][1])
        else:
            res.ok(construct, f"`{table}[x] -= {amount}` over {short(dloop.iter)} is undone after the recursion")
    # a conditional decrement inside the decrement loop must not hide it
    res.floor(1)
    return res


def fresh_starts(prog: Program) -> RuleResult:
    res = RuleResult(
        "FRESH-STARTS",
        "the backtracking step never mutates the set it iterates (nor any object shared with the caller): the "
        "next-start set is a fresh copy and is what the recursion receives",
    )
    mod = prog.module(TOPO)
    fn = prog.func(TOPO, "_toposort_all_bt")
    params = func_params(fn)
    outer = [n for n in fn.body if isinstance(n, ast.For)]
    if len(outer) != 1:
        raise AnalysisError("_toposort_all_bt: outer loop not found")
    loop = outer[0]
    iterated = dotted(loop.iter)
    n = 0
    for call in calls_in(loop, nested=False):
        if isinstance(call.func, ast.Attribute) and call.func.attr in ("add", "remove", "discard", "pop", "clear", "update", "difference_update"):
            target = call.func.value
            if not isinstance(target, ast.Name):
                continue
            n += 1
            construct = f"{TOPO}:_toposort_all_bt/{target.id}.{call.func.attr}"
            src = reaching(fn, target.id, call)
            fresh = (
                isinstance(src, ast.Call)
                and (
                    dotted(src.func) in ("set", "frozenset", "list", "sorted", "copy", "deepcopy", "copy.copy", "copy.deepcopy")
                    or (isinstance(src.func, ast.Attribute) and src.func.attr in ("copy", "difference", "union"))
                )
            ) or isinstance(src, (ast.BinOp, ast.SetComp, ast.Set))
            inside = src is not None and not isinstance(src, Opaque) and hasattr(src, "lineno") and any(s is src for s in ast.walk(loop))
            if target.id == iterated or target.id in params:
                res.fail(
                    construct,
                    f"`{short(call)}` mutates `{target.id}`, which is "
                    + ("the set being iterated" if target.id == iterated else "shared with the caller"),
                    mod,
                    call,
                )
            elif not fresh or not inside:
                res.fail(
                    construct,
                    f"`{short(call)}` mutates `{target.id}` which is not a fresh copy made in this iteration "
                    f"(bound to `{short(src) if isinstance(src, ast.AST) else src}`)",
                    mod,
                    call,
                )
            else:
                res.ok(construct, f"`{target.id}` = {short(src)}")
    recs = [c for c in calls_in(loop, nested=False) if isinstance(c.func, ast.Name) and c.func.id == fn.name]
    for call in recs:
        construct = f"{TOPO}:_toposort_all_bt/recursion-starts"
        first = call.args[0] if call.args else kwarg(call, params[0])
        if isinstance(first, ast.Name) and first.id != iterated and first.id not in params:
            res.ok(construct, f"recursion receives `{first.id}`")
        else:
            res.fail(construct, f"the recursion receives `{short(first)}` instead of the per-iteration copy", mod, call)
    # base case returns a fresh list of one fresh empty ordering
    base = [n_ for n_ in fn.body if isinstance(n_, ast.If)]
    okb = False
    for b in base:
        for node in b.body:
            if isinstance(node, ast.Return) and isinstance(node.value, ast.List) and len(node.value.elts) == 1:
                if isinstance(node.value.elts[0], ast.List) and not node.value.elts[0].elts:
                    okb = True
    if okb:
        res.ok(f"{TOPO}:_toposort_all_bt/base-case", "returns [[]] (one empty ordering, fresh lists)")
    else:
        res.fail(f"{TOPO}:_toposort_all_bt/base-case", "the base case does not return one fresh empty ordering `[[]]`", mod, fn)
    if n < 2:
        raise AnalysisError("FRESH-STARTS: mutations of the next-start set not found")
    return res


def indeg_init(prog: Program) -> RuleResult:
    res = RuleResult(
        "INDEG-INIT",
        "both sorters count one in-degree per edge and remove every successor from the initial start set; the "
        "all-orderings driver rejects partial orderings (cycle) by comparing lengths with the graph",
    )
    mod = prog.module(TOPO)
    for fname in ("toposort", "toposort_all"):
        fn = prog.func(TOPO, fname)
        graph = func_params(fn)[0]
        construct = f"{TOPO}:{fname}/init"
        found = False
        for loop in [n for n in fn.body if isinstance(n, ast.For)]:
            it = loop.iter
            if not (isinstance(it, ast.Call) and isinstance(it.func, ast.Attribute) and it.func.attr == "values" and dotted(it.func.value) == graph):
                continue
            inner = [n for n in loop.body if isinstance(n, ast.For) and dotted(n.iter) == dotted(loop.target)]
            if not inner:
                continue
            found = True
            step = _indeg_step(inner[0])
            removes = [
                c
                for c in calls_in(inner[0], nested=False)
                if isinstance(c.func, ast.Attribute)
                and c.func.attr in ("discard", "remove")
                and c.args
                and dotted(c.args[0]) == dotted(inner[0].target)
            ]
            problems = []
            if not step or step[1] != "+" or step[2] != 1:
                problems.append("in-degrees are not incremented by one per edge")
            elif conditions(fn, next(n for n in walk_no_nested(inner[0]) if isinstance(n, ast.AugAssign))) :
                problems.append("the in-degree increment is conditional")
            if not removes:
                problems.append("successors are not removed from the start set")
            if problems:
                res.fail(construct, "; ".join(problems), mod, inner[0])
            else:
                res.ok(construct, f"indeg[succ] += 1 and {short(removes[0])} for every edge")
        if not found:
            raise AnalysisError(f"{TOPO}:{fname}: initialisation loop over graph.values() not recognised")
    fn = prog.func(TOPO, "toposort_all")
    graph = func_params(fn)[0]
    okc = False
    for node in walk_no_nested(fn):
        if isinstance(node, ast.If) and isinstance(node.test, ast.Compare) and len(node.test.ops) == 1:
            t = node.test
            sides = [ast.unparse(t.left), ast.unparse(t.comparators[0])]
            if f"len({graph})" in sides and isinstance(t.ops[0], (ast.NotEq, ast.Lt)):
                if any(isinstance(s, ast.Return) and isinstance(s.value, ast.List) and not s.value.elts for s in node.body):
                    okc = True
    if okc:
        res.ok(f"{TOPO}:toposort_all/cycle", "orderings shorter than the graph make the result empty")
    else:
        res.fail(f"{TOPO}:toposort_all/cycle", "partial orderings of a cyclic graph are not rejected", mod, fn)
    # (the verdict of the single-ordering routine is decided by TOPO-VERDICT)
    return res


def graph_keys(prog: Program) -> RuleResult:
    res = RuleResult(
        "GRAPH-KEYS",
        "the precedence graph has every family of every leaf synteny as a key, and one edge first -> second for "
        "each adjacent pair (first from synteny[:-1], second from synteny[1:])",
    )
    modname = "compute.super_reconciliation"
    mod = prog.module(modname)
    fn = prog.func(modname, "_make_prec_graph")
    rets = [n for n in walk_no_nested(fn) if isinstance(n, ast.Return)]
    if len(rets) != 1 or not isinstance(rets[0].value, ast.Name):
        raise AnalysisError("_make_prec_graph: return not recognised")
    g = rets[0].value.id
    outer = [n for n in fn.body if isinstance(n, ast.For)]
    if len(outer) != 1 or not isinstance(outer[0].target, ast.Name):
        raise AnalysisError("_make_prec_graph: loop over leaf syntenies not recognised")
    syn = outer[0].target.id
    it = outer[0].iter
    if not (isinstance(it, ast.Call) and isinstance(it.func, ast.Attribute) and it.func.attr == "values"):
        res.fail(f"{modname}:_make_prec_graph/all-leaves", f"iterates `{short(it)}`, not the values of the mapping", mod, outer[0])
    else:
        res.ok(f"{modname}:_make_prec_graph/all-leaves", short(it))
    pair_loops = [n for n in outer[0].body if isinstance(n, ast.For)]
    base = f"{modname}:_make_prec_graph"
    # successor sets are extended, never replaced: the same family is followed by different families in different leaves
    replaced = None
    for node in walk_no_nested(fn):
        if isinstance(node, ast.Call) and isinstance(node.func, ast.Attribute) and node.func.attr == "update" and dotted(node.func.value) == g:
            replaced = node
        elif isinstance(node, ast.Assign) and any(isinstance(t, ast.Subscript) and dotted(t.value) == g for t in node.targets):
            val = node.value
            empty = (isinstance(val, ast.Call) and dotted(val.func) == "set" and not val.args) or (isinstance(val, ast.Set) and not val.elts)
            guarded_absent = any(
                isinstance(t_, ast.Compare) and isinstance(t_.ops[0], ast.NotIn) and pol or isinstance(t_, ast.Compare) and isinstance(t_.ops[0], ast.In) and not pol
                for t_, pol in guards(fn, node)
            )
            if not (empty and guarded_absent):
                replaced = node
        elif isinstance(node, ast.Assign) and any(dotted(t) == g for t in node.targets) and loops_around(fn, node):
            # the graph itself rebuilt inside the loop from a dictionary display / union: a later entry for the same
            # family replaces its successor set
            val = node.value
            merges = (isinstance(val, ast.Dict) and any(k is None for k in val.keys)) or (isinstance(val, ast.BinOp) and isinstance(val.op, ast.BitOr)) or (isinstance(val, ast.Call) and dotted(val.func) in ("dict", "ChainMap"))
            if merges:
                replaced = node
    if replaced is not None:
        res.fail(
            f"{base}/accumulate",
            f"`{short(replaced, 90)}` replaces the successor set of a family instead of extending it: the precedence "
            "constraints of earlier leaves are lost and root orders contradicting a leaf are enumerated",
            mod,
            replaced,
        )
        return res
    res.ok(f"{base}/accumulate", "successor sets are created empty when absent and only extended")
    if len(pair_loops) != 1:
        raise AnalysisError("_make_prec_graph: loop over adjacent pairs not recognised")
    pl = pair_loops[0]
    z = pl.iter
    ok_zip = (
        isinstance(z, ast.Call)
        and dotted(z.func) == "zip"
        and len(z.args) == 2
        and all(isinstance(a, ast.Subscript) and dotted(a.value) == syn and isinstance(a.slice, ast.Slice) for a in z.args)
    )
    first = second = None
    if ok_zip:
        s0, s1 = z.args[0].slice, z.args[1].slice

        def cval(x):
            if x is None:
                return None
            if isinstance(x, ast.Constant):
                return x.value
            if isinstance(x, ast.UnaryOp) and isinstance(x.op, ast.USub) and isinstance(x.operand, ast.Constant):
                return -x.operand.value
            return "?"

        ok_zip = (
            cval(s0.lower) in (None, 0) and cval(s0.upper) == -1 and s0.step is None
            and cval(s1.lower) == 1 and cval(s1.upper) is None and s1.step is None
        )
        if isinstance(pl.target, ast.Tuple) and len(pl.target.elts) == 2:
            first, second = (dotted(e) for e in pl.target.elts)
    if ok_zip and first and second:
        res.ok(f"{base}/adjacent-pairs", short(z))
    else:
        res.fail(f"{base}/adjacent-pairs", f"pairs come from `{short(z)}`, not zip(s[:-1], s[1:]) of the synteny", mod, pl)
        return res
    # edge orientation and key creation for the first element
    adds = [
        c
        for c in calls_in(pl, nested=False)
        if isinstance(c.func, ast.Attribute) and c.func.attr == "add" and isinstance(c.func.value, ast.Subscript)
    ]
    ok_edge = (
        len(adds) == 1
        and dotted(adds[0].func.value.value) == g
        and dotted(adds[0].func.value.slice) == first
        and adds[0].args
        and dotted(adds[0].args[0]) == second
        and not conditions(fn, adds[0])
    )
    if ok_edge:
        res.ok(f"{base}/edge", f"{g}[{first}].add({second})")
    else:
        res.fail(
            f"{base}/edge",
            f"the edge is recorded as `{short(adds[0]) if adds else '<none>'}`, not `{g}[{first}].add({second})` "
            "unconditionally: the root order no longer follows the leaf orders",
            mod,
            adds[0] if adds else pl,
        )
    ok_first = _ensures_key(pl.body, g, first)
    if ok_first:
        res.ok(f"{base}/key-first", f"`{first}` made a key before use")
    else:
        res.fail(f"{base}/key-first", f"`{first}` is not made a key of `{g}` before its successors are added", mod, pl)
    last_expr = f"{syn}[-1]"
    rest = [s for s in outer[0].body if s is not pl]
    ok_last = _ensures_key(rest, g, last_expr)
    if ok_last:
        res.ok(f"{base}/key-last", f"`{last_expr}` made a key")
    else:
        res.fail(
            f"{base}/key-last",
            f"the last family of each synteny (`{last_expr}`) is not made a key of `{g}`: a family that is never "
            "first of a pair is missing from the graph (KeyError in the sorter / family absent from root orders)",
            mod,
            outer[0],
        )
    return res


def _ensures_key(stmts: List[ast.stmt], g: str, key_text: str) -> bool:
    for stmt in stmts:
        if isinstance(stmt, ast.If) and isinstance(stmt.test, ast.Compare) and len(stmt.test.ops) == 1:
            t = stmt.test
            if isinstance(t.ops[0], ast.NotIn) and ast.unparse(t.left) == key_text and dotted(t.comparators[0]) == g:
                for s in stmt.body:
                    if (
                        isinstance(s, ast.Assign)
                        and isinstance(s.targets[0], ast.Subscript)
                        and dotted(s.targets[0].value) == g
                        and ast.unparse(s.targets[0].slice) == key_text
                    ):
                        return True
        if isinstance(stmt, ast.Expr) and isinstance(stmt.value, ast.Call):
            c = stmt.value
            if isinstance(c.func, ast.Attribute) and c.func.attr == "setdefault" and dotted(c.func.value) == g:
                if c.args and ast.unparse(c.args[0]) == key_text:
                    return True
    return False


def copy_before_mutate(prog: Program) -> RuleResult:
    res = RuleResult(
        "COPY-BEFORE-MUTATE",
        "the two-block enumeration only unites on private deep copies, never on the partition it received "
        "(both branches of the recursion start from the same partition)",
    )
    modname = "utils.disjoint_set"
    mod = prog.module(modname)
    fn = prog.func(modname, "DisjointSet.binary._binary")
    params = func_params(fn)
    linkers = set(_dset_linkers(prog.cls(modname, "DisjointSet"))) | {"unite"}
    n = 0
    for call in calls_in(fn, nested=False):
        if isinstance(call.func, ast.Attribute) and call.func.attr in linkers | {"find"}:
            target = call.func.value
            if call.func.attr == "find":
                continue
            n += 1
            construct = f"{modname}:DisjointSet.binary/unite[{short(target, 20)}]#{n}"
            src = reaching(fn, target.id, call) if isinstance(target, ast.Name) else None
            if isinstance(target, ast.Name) and target.id in params and src is None:
                res.fail(construct, f"`{short(call)}` unites on the shared parameter `{target.id}`", mod, call)
            elif isinstance(src, ast.Call) and dotted(src.func) in ("deepcopy", "copy.deepcopy"):
                res.ok(construct, f"`{target.id}` = {short(src)}")
            else:
                res.fail(
                    construct,
                    f"`{short(call)}` unites on `{short(target)}` which is not a deep copy "
                    f"(bound to `{short(src) if isinstance(src, ast.AST) else src}`; a shallow copy shares the "
                    "parent/rank lists)",
                    mod,
                    call,
                )
    # each recursive call receives the copy made for its branch
    for call in calls_in(fn, nested=False):
        if isinstance(call.func, ast.Name) and call.func.id == fn.name:
            first = call.args[0] if call.args else None
            construct = f"{modname}:DisjointSet.binary/recursion[{short(first, 20)}]"
            src = reaching(fn, first.id, call) if isinstance(first, ast.Name) else None
            if isinstance(src, ast.Call) and dotted(src.func) in ("deepcopy", "copy.deepcopy"):
                res.ok(construct, "recursion receives a private copy")
            else:
                res.fail(construct, f"the recursion receives `{short(first)}`, not a private deep copy", mod, call)
    if n < 2:
        raise AnalysisError("COPY-BEFORE-MUTATE: unite calls in DisjointSet.binary not found")
    return res


# ---------------------------------------------------------------------------
# freshness of attached subtrees


FRESH_CTORS = {"Tree", "TreeNode", "deepcopy", "copy.deepcopy"}
FRESH_METHODS = {"copy", "detach"}


class _Fresh:
    def __init__(self, prog: Program, mod: Module):
        self.prog = prog
        self.mod = mod
        self.summary: Dict[str, Optional[bool]] = {}

    def func_fresh(self, fn: ast.AST) -> bool:
        """Every value the function returns / yields is a fresh tree (or a list of fresh trees)."""
        key = fn.name
        if key in self.summary:
            return self.summary[key] is not False  # co-inductive assumption on recursion
        self.summary[key] = None
        ok = True
        seen = False
        for node in walk_no_nested(fn):
            if isinstance(node, ast.Return) and node.value is not None:
                if isinstance(node.value, ast.Constant) and node.value.value is None:
                    continue
                seen = True
                ok = ok and self.expr_fresh(fn, node.value, node, allow_list=True)
            elif isinstance(node, ast.Yield) and node.value is not None:
                seen = True
                ok = ok and self.expr_fresh(fn, node.value, node)
            elif isinstance(node, ast.YieldFrom):
                seen = True
                ok = ok and self.expr_fresh(fn, node.value, node, allow_list=True)
        self.summary[key] = ok and seen
        return ok and seen

    def expr_fresh(self, fn: ast.AST, expr: ast.AST, at: ast.AST, allow_list: bool = False, depth: int = 6) -> bool:
        if depth <= 0:
            return False
        if isinstance(expr, ast.Call):
            name = dotted(expr.func)
            if name in FRESH_CTORS:
                return True
            if isinstance(expr.func, ast.Attribute) and expr.func.attr in FRESH_METHODS:
                return True
            target = resolve_callee(self.prog, self.mod, expr.func)
            if target is None and isinstance(expr.func, ast.Name):
                # nested helper
                for qual, node in self.prog.defs(self.mod.name).items():
                    if isinstance(node, FuncNode) and qual.endswith("." + expr.func.id):
                        target = (self.mod, node)
            if target and isinstance(target[1], FuncNode):
                return self.func_fresh(target[1])
            return False
        if isinstance(expr, (ast.List, ast.Tuple)) and allow_list:
            return all(self.expr_fresh(fn, e, at, depth=depth - 1) for e in expr.elts)
        if isinstance(expr, ast.ListComp) and allow_list:
            return self.expr_fresh(fn, expr.elt, at, depth=depth - 1) or self._comp_var_fresh(fn, expr, at, depth)
        if isinstance(expr, ast.Name):
            src = reaching(fn, expr.id, at)
            if src is None:
                return False
            if isinstance(src, Opaque):
                return self._loop_var_fresh(fn, expr.id, at, depth)
            if isinstance(src, ast.List) and not src.elts and allow_list:
                # list built by append: every appended value must be fresh
                apps = [
                    c
                    for c in calls_in(fn, nested=False)
                    if isinstance(c.func, ast.Attribute) and c.func.attr in ("append", "extend") and dotted(c.func.value) == expr.id
                ]
                return all(self.expr_fresh(fn, c.args[0], c, allow_list=c.func.attr == "extend", depth=depth - 1) for c in apps)
            pos = src if hasattr(src, "lineno") else at
            return self.expr_fresh(fn, src, pos, allow_list, depth - 1)
        if isinstance(expr, ast.Subscript):
            return self.expr_fresh(fn, expr.value, at, allow_list=True, depth=depth - 1)
        return False

    def _comp_var_fresh(self, fn, comp: ast.ListComp, at, depth) -> bool:
        if isinstance(comp.elt, ast.Name):
            for gen in comp.generators:
                if dotted(gen.target) == comp.elt.id:
                    return self.expr_fresh(fn, gen.iter, at, allow_list=True, depth=depth - 1)
        return False

    def _loop_var_fresh(self, fn, name: str, at, depth) -> bool:
        for loop in reversed(loops_around(fn, at)):
            if not isinstance(loop, ast.For):
                continue
            targets = [n.id for n in ast.walk(loop.target) if isinstance(n, ast.Name)]
            if name not in targets:
                continue
            it = loop.iter
            if isinstance(it, ast.Call) and dotted(it.func) in ("product", "itertools.product") and len(it.args) > 1:
                # every element of one factor is paired with every element of the others:
                # the same object comes back in several iterations
                return False
            if isinstance(it, ast.Call) and dotted(it.func) in ("product", "itertools.product", "zip"):
                if isinstance(loop.target, ast.Tuple) and len(loop.target.elts) == len(it.args):
                    idx = [dotted(e) for e in loop.target.elts].index(name)
                    return self.expr_fresh(fn, it.args[idx], loop, allow_list=True, depth=depth - 1)
                return False
            return self.expr_fresh(fn, it, loop, allow_list=True, depth=depth - 1)
        return False


def fresh_attach(prog: Program) -> RuleResult:
    res = RuleResult(
        "FRESH-ATTACH",
        "every subtree attached with add_child in utils/trees.py is a fresh object (constructor, copy(), "
        "detach(), or the result of a function that only returns such): enumerated trees never share nodes, and "
        "attaching never steals a node from another tree",
    )
    mod = prog.module(TREES)
    fresh = _Fresh(prog, mod)
    for qual, fn in prog.defs(TREES).items():
        if not isinstance(fn, FuncNode):
            continue
        n = 0
        for call in calls_in(fn, nested=False):
            if isinstance(call.func, ast.Attribute) and call.func.attr == "add_child" and call.args:
                n += 1
                arg = call.args[0]
                construct = f"{TREES}:{qual}/add_child#{n}[{short(arg, 30)}]"
                if fresh.expr_fresh(fn, arg, call):
                    res.ok(construct, "fresh")
                else:
                    res.fail(
                        construct,
                        f"`{short(call)}` attaches `{short(arg)}` which may belong to another tree (ete3 re-parents "
                        "the node: the other tree loses it, and trees yielded earlier change)",
                        mod,
                        call,
                    )
    res.floor(14)
    return res


def feature_copy(prog: Program) -> RuleResult:
    res = RuleResult(
        "FEATURE-COPY",
        "binarize copies the attributes of the original node (at least name and colour) onto every refinement "
        "generated for it",
    )
    mod = prog.module(TREES)
    fn = prog.func(TREES, "binarize")
    outer = [n for n in walk_no_nested(fn) if isinstance(n, ast.For) and isinstance(n.iter, ast.Call)
             and isinstance(n.iter.func, ast.Attribute) and n.iter.func.attr == "traverse"]
    if len(outer) != 1:
        raise AnalysisError("binarize: traversal loop not found")
    node_var = dotted(outer[0].target)
    adds = [c for c in calls_in(outer[0], nested=False) if isinstance(c.func, ast.Attribute) and c.func.attr == "add_feature"]
    construct = f"{TREES}:binarize/copy-features"
    if not adds:
        res.fail(construct, "no attribute of the original node is copied onto its refinements (names and colours are lost)", mod, outer[0])
        return res
    for call in adds:
        loops = [l for l in loops_around(fn, call) if l is not outer[0]]
        key_loops = [l for l in loops if isinstance(l, ast.For) and dotted(l.target) == dotted(call.args[0])]
        sub_loops = [l for l in loops if isinstance(l, ast.For) and dotted(l.target) == dotted(call.func.value)]
        problems = []
        if not key_loops:
            keys = None
        else:
            it = key_loops[0].iter
            if isinstance(it, ast.Attribute) and it.attr == "features" and dotted(it.value) == node_var:
                keys = "all"
            elif isinstance(it, (ast.Tuple, ast.List, ast.Set)) and all(isinstance(e, ast.Constant) for e in it.elts):
                keys = {e.value for e in it.elts}
            else:
                keys = None
        if keys is None:
            problems.append(f"the copied keys `{short(key_loops[0].iter) if key_loops else short(call.args[0])}` are not recognised")
        elif keys != "all" and not {"name", "color"} <= keys:
            problems.append(f"only {sorted(keys)} are copied (name and color are required)")
        if not sub_loops or not (
            isinstance(sub_loops[0].iter, ast.Subscript)
            and dotted(sub_loops[0].iter.slice) == node_var
        ):
            problems.append("the copy is not applied to every refinement generated for the node")
        value = call.args[1] if len(call.args) > 1 else None
        if not (
            isinstance(value, ast.Call)
            and dotted(value.func) == "getattr"
            and len(value.args) >= 2
            and dotted(value.args[0]) == node_var
            and dotted(value.args[1]) == dotted(call.args[0])
        ):
            problems.append(f"the copied value `{short(value)}` is not the original node's attribute")
        if conditions(fn, call) and any(not _is_not_leaf(g, pol) for g, pol in conditions(fn, call)):
            problems.append("the copy is conditional")
        if problems:
            res.fail(construct, "; ".join(problems), mod, call)
        else:
            res.ok(construct, f"{'all features' if keys == 'all' else sorted(keys)} copied onto each subtree of subtrees[{node_var}]")
    return res


def _is_not_leaf(test: ast.AST, pol: bool) -> bool:
    return (
        isinstance(test, ast.Call)
        and isinstance(test.func, ast.Attribute)
        and test.func.attr == "is_leaf"
        and not pol
    )

# ---------------------------------------------------------------------------
# disjoint sets: the block counter follows the links



def _dset_linkers(cls: ast.ClassDef) -> Dict[str, str]:
    """Methods of DisjointSet that link two sets: 'safe' when they look their arguments up with find() first,
    'raw' when they store into self.parent directly on what they are given (find() itself only compresses)."""
    out: Dict[str, str] = {}
    methods = {m.name: m for m in cls.body if isinstance(m, (ast.FunctionDef, ast.AsyncFunctionDef))}
    changed = True
    while changed:
        changed = False
        for name, m in methods.items():
            if name in out or name == "find":
                continue
            stores = any(
                isinstance(st, ast.Assign) and any(isinstance(t, ast.Subscript) and dotted(t.value) == "self.parent" for t in st.targets)
                for st in walk_no_nested(m)
            )
            calls_linker = any(
                isinstance(c, ast.Call) and isinstance(c.func, ast.Attribute) and dotted(c.func.value) == "self" and c.func.attr in out
                for c in walk_no_nested(m)
            )
            if stores or calls_linker:
                finds = any(isinstance(c, ast.Call) and dotted(c.func) == "self.find" for c in walk_no_nested(m))
                out[name] = "safe" if finds else "raw"
                changed = True
    return out


def groups_pairing(prog: Program) -> RuleResult:
    res = RuleResult(
        "GROUPS-PAIRING",
        "in DisjointSet.unite every path that links two representatives (a store into self.parent) decrements the "
        "block counter exactly once and returns True; every path that links nothing leaves the counter alone and "
        "returns False (len() is the counter, and tree_from_triples stops on len(partition) <= 1)",
    )
    from ..flow import consistent, paths

    modname = "utils.disjoint_set"
    mod = prog.module(modname)
    cls = prog.cls(modname, "DisjointSet")
    fn = method_def(cls, "unite")
    if fn is None:
        raise AnalysisError("DisjointSet.unite not found")
    counter = _len_counter(cls)
    linkers = _dset_linkers(cls)
    methods = {m.name: m for m in cls.body if isinstance(m, (ast.FunctionDef, ast.AsyncFunctionDef))}

    def summarise(meth: ast.AST, depth: int = 0):
        """set of (links, decrements, returned constant) over the return / fall-through paths of a method"""
        out = set()
        for path in paths(meth.body):
            if path.end == "raise" or not consistent(path.conds):
                continue
            links = decs = 0
            for ev in path.events:
                if isinstance(ev, ast.Assign):
                    for tgt in ev.targets:
                        if isinstance(tgt, ast.Subscript) and dotted(tgt.value) == "self.parent":
                            links += 1
                if isinstance(ev, ast.AugAssign) and dotted(ev.target) == f"self.{counter}":
                    if isinstance(ev.op, ast.Sub) and isinstance(ev.value, ast.Constant) and ev.value.value == 1:
                        decs += 1
                    else:
                        decs += 99
                if isinstance(ev, ast.Assign) and any(dotted(t) == f"self.{counter}" for t in ev.targets):
                    decs += 99
                for c in ast.walk(ev) if not isinstance(ev, (ast.For, ast.While)) else []:
                    if isinstance(c, ast.Call) and isinstance(c.func, ast.Attribute) and dotted(c.func.value) == "self" and c.func.attr in linkers and c.func.attr != meth.name and depth < 3:
                        sub = summarise(methods[c.func.attr], depth + 1)
                        if len({(l, d) for l, d, _r, _p in sub}) != 1:
                            decs += 99
                        else:
                            l, d = next(iter({(l, d) for l, d, _r, _p in sub}))
                            links += l
                            decs += d
            last = path.events[-1] if path.events else None
            rv = last.value.value if isinstance(last, ast.Return) and isinstance(last.value, ast.Constant) else ("<expr>" if isinstance(last, ast.Return) and last.value is not None else None)
            out.add((links, decs, rv, path))
        return out

    n = 0
    for links, decs, rv, path in summarise(fn):
        last = path.events[-1] if path.events else fn
        n += 1
        conds = " and ".join(("" if p else "not ") + short(t, 40) for t, p in path.conds) or "always"
        construct = f"{modname}:DisjointSet.unite/path[{conds}]"
        want_decs, want_rv = (1, True) if links else (0, False)
        if links > 1:
            res.fail(construct, f"{links} links on one path", mod, last)
        elif decs != want_decs:
            res.fail(
                construct,
                f"this path {'links two sets' if links else 'links nothing'} but changes the block counter "
                f"`self.{counter}` {decs if decs < 99 else 'in an unrecognised way'} time(s) (expected {want_decs}): len() drifts from the number of blocks",
                mod,
                last,
            )
        elif rv is not want_rv:
            res.fail(construct, f"this path {'links' if links else 'does not link'} but returns `{rv}`", mod, last)
        else:
            res.ok(construct, f"links={links}, counter decrements={decs}, returns {rv}")
    # a link joins two roots: in every method but find (path compression) and the constructor, a store
    # `self.parent[K] = V` has K and V bound to the results of two different find() calls
    seen_links: Dict[str, int] = {}
    for mname, meth in methods.items():
        if mname in ("find", "__init__"):
            continue
        for st in walk_no_nested(meth):
            if not isinstance(st, ast.Assign):
                continue
            for tgt in st.targets:
                if not (isinstance(tgt, ast.Subscript) and dotted(tgt.value) == "self.parent"):
                    continue
                seen_links[short(st, 50)] = seen_links.get(short(st, 50), 0) + 1
                construct = f"{modname}:DisjointSet.{mname}/link-roots[{short(st, 50)}]" + (f"#{seen_links[short(st, 50)]}" if seen_links[short(st, 50)] > 1 else "")
                srcs = []
                for part in (tgt.slice, st.value):
                    src = part
                    if isinstance(part, ast.Name):
                        got = reaching(meth, part.id, st)
                        src = got if got is not None and not isinstance(got, Opaque) else part
                    srcs.append(src)
                reps = [isinstance(x, ast.Call) and dotted(x.func) == "self.find" for x in srcs]
                if linkers.get(mname) == "raw":
                    res.ok(construct, "a raw linker: its callers are checked below")
                elif not all(reps):
                    which = short(tgt.slice) if not reps[0] else short(st.value)
                    res.fail(
                        construct,
                        f"`{short(st, 60)}` links `{which}`, which is not the result of find(): hanging a non-root element under another "
                        "root detaches it (and everything below it) from its own group while the rest of that group keeps the old root",
                        mod,
                        st,
                    )
                elif ast.dump(srcs[0]) == ast.dump(srcs[1]):
                    res.fail(construct, f"`{short(st, 60)}` links a root to itself", mod, st)
                else:
                    res.ok(construct, "both sides are find() results")
    # a raw linker is only ever given representatives: results of find() on the same object, in the same function
    for mod2, qual2, caller in prog.functions():
        for call in walk_no_nested(caller):
            if not (isinstance(call, ast.Call) and isinstance(call.func, ast.Attribute) and linkers.get(call.func.attr) == "raw"):
                continue
            recv = dotted(call.func.value)
            construct = f"{mod2.name.split('.', 1)[1]}:{qual2}/raw-link[{short(call, 40)}]"
            bad_args = []
            for a in call.args:
                src = a
                if isinstance(a, ast.Name):
                    got = reaching(caller, a.id, call)
                    src = got if got is not None and not isinstance(got, Opaque) else a
                is_rep = isinstance(src, ast.Call) and isinstance(src.func, ast.Attribute) and src.func.attr == "find" and dotted(src.func.value) == recv
                if not is_rep:
                    bad_args.append(short(a))
            if bad_args:
                res.fail(
                    construct,
                    f"`{short(call, 60)}` links {bad_args} directly: `{call.func.attr}` stores into the parent table without find(), so "
                    "its arguments must be the current representatives (results of find() on the same object here) - an element that has "
                    "since been hung under another root is re-parented and its group is orphaned",
                    mod2,
                    call,
                )
            else:
                res.ok(construct, "arguments are find() results")
    if n < 2:
        raise AnalysisError(f"GROUPS-PAIRING: only {n} return paths in unite")
    return res


def _len_counter(cls: ast.ClassDef) -> str:
    fn = method_def(cls, "__len__")
    if fn is None:
        raise AnalysisError("DisjointSet.__len__ not found")
    rets = [n for n in walk_no_nested(fn) if isinstance(n, ast.Return)]
    if len(rets) == 1 and isinstance(rets[0].value, ast.Attribute) and dotted(rets[0].value.value) == "self":
        return rets[0].value.attr
    raise AnalysisError("DisjointSet.__len__ does not return a counter attribute")


# ---------------------------------------------------------------------------
# supertrees: the leaf set comes from the trees


def leaves_source(prog: Program) -> RuleResult:
    res = RuleResult(
        "LEAVES-SOURCE",
        "trees_to_triples collects the leaf set from the leaves of every input tree (first component of "
        "tree_to_triples(tree) or the tree's own leaves), inside the loop over the trees - a tree with fewer "
        "than three leaves contributes leaves but no triple, so a leaf set derived from the triples loses them",
    )
    mod = prog.module(TREES)
    fn = prog.func(TREES, "trees_to_triples")
    params = func_params(fn)
    rets = [n for n in walk_no_nested(fn) if isinstance(n, ast.Return) and n.value is not None]
    if len(rets) != 1 or not isinstance(rets[0].value, ast.Tuple) or len(rets[0].value.elts) != 2:
        raise AnalysisError("trees_to_triples: expected a single `return <leaves>, <triples>`")
    acc = _unwrap_collection(rets[0].value.elts[0])
    if acc is None:
        raise AnalysisError(f"trees_to_triples: returned leaves `{short(rets[0].value.elts[0])}` is not an accumulator name")
    construct = f"{TREES}:trees_to_triples/leaf-set"
    loops = [n for n in walk_no_nested(fn) if isinstance(n, ast.For) and dotted(n.iter) == params[0]]
    if not loops:
        raise AnalysisError("trees_to_triples: loop over the input trees not found")
    sources: List[Tuple[str, ast.AST]] = []
    for node in walk_no_nested(fn):
        src = None
        if isinstance(node, ast.Call) and isinstance(node.func, ast.Attribute) and dotted(node.func.value) == acc:
            if node.func.attr in ("update", "add", "extend", "append") and node.args:
                src = node.args[0]
        elif isinstance(node, ast.AugAssign) and dotted(node.target) == acc:
            src = node.value
        elif isinstance(node, ast.Assign) and any(dotted(t) == acc for t in node.targets):
            if not (isinstance(node.value, ast.Call) and dotted(node.value.func) in ("set", "list") and not node.value.args):
                src = node.value
        if src is None:
            continue
        in_tree_loop = any(l in loops for l in loops_around(fn, node))
        sources.append((_leaf_origin(fn, src, node, loops[0]) if in_tree_loop else "outside-loop:" + _leaf_origin(fn, src, node, loops[0]), node))
    good = [s for s, _n in sources if s == "leaves"]
    if good:
        res.ok(construct, f"`{acc}` receives the leaves of every tree ({len(good)} update(s) inside the loop over `{params[0]}`)")
    else:
        where = sources[0][1] if sources else fn
        res.fail(
            construct,
            f"the returned leaf set `{acc}` is never fed with the leaves of each input tree "
            f"(its sources: {[s for s, _n in sources] or 'none'}): leaves of trees with fewer than three leaves are lost",
            mod,
            where,
        )
    # the enumeration is run on the leaf set it is given
    wrap = prog.func(TREES, "all_trees_from_triples")
    wparams = func_params(wrap)
    construct = f"{TREES}:all_trees_from_triples/all-leaves"
    calls = [c for c in walk_no_nested(wrap) if isinstance(c, ast.Call) and dotted(c.func) == "_all_trees_from_triples" and c.args]
    if not calls:
        raise AnalysisError("all_trees_from_triples: call of the recursive enumerator not found")
    for call in calls:
        arg = call.args[0]
        src = arg
        if isinstance(arg, ast.Name) and arg.id != wparams[0]:
            got = reaching(wrap, arg.id, call)
            src = got if got is not None and not isinstance(got, Opaque) else arg
        while isinstance(src, ast.Call) and dotted(src.func) in ("list", "sorted", "tuple") and len(src.args) == 1:
            src = src.args[0]
        if isinstance(src, ast.Name) and src.id == wparams[0]:
            res.ok(construct, f"the enumerator receives `{wparams[0]}` as given")
            continue
        filtered = isinstance(src, (ast.ListComp, ast.SetComp, ast.GeneratorExp)) and any(g.ifs for g in src.generators)
        returned_directly = any(isinstance(r, ast.Return) and r.value is call for r in walk_no_nested(wrap))
        if filtered and returned_directly:
            res.fail(construct, f"the enumerator is run on `{short(src, 70)}`, a part of the leaves, and its answer is returned as is: the leaves left out appear in no tree", mod, call)
        else:
            raise AnalysisError(f"all_trees_from_triples: the enumerator is run on `{short(src, 60)}`, not on the leaf set that was given; whether every leaf still appears in every answer (also when no leaf is constrained) is not decided")
    return res


def _unwrap_collection(expr: ast.AST) -> Optional[str]:
    while isinstance(expr, ast.Call) and dotted(expr.func) in ("list", "sorted", "set", "tuple") and len(expr.args) == 1:
        expr = expr.args[0]
    return dotted(expr)


def _leaf_origin(fn: ast.AST, src: ast.AST, at: ast.AST, tree_loop: ast.For, depth: int = 0) -> str:
    """'leaves' | 'triples' | 'unknown' - where an expression added to the leaf accumulator comes from."""
    tree_var = dotted(tree_loop.target)
    if depth > 5:
        return "unknown"
    if isinstance(src, ast.Name):
        val = reaching(fn, src.id, at)
        if val is None:
            return "unknown"
        if isinstance(val, Opaque):
            # loop variable of an inner loop: look at what is iterated
            for loop in loops_around(fn, at):
                if isinstance(loop, ast.For) and src.id in {n.id for n in ast.walk(loop.target) if isinstance(n, ast.Name)}:
                    inner = _leaf_origin(fn, loop.iter, loop, tree_loop, depth + 1)
                    return "triples" if inner == "triples" else ("leaves" if inner == "leaves" else "unknown")
            return "unknown"
        return _leaf_origin(fn, val, val if hasattr(val, "lineno") else at, tree_loop, depth + 1)
    if isinstance(src, ast.Subscript) and isinstance(src.slice, ast.Constant) and isinstance(src.slice.value, int):
        base = src.value
        if isinstance(base, ast.Name):
            v = reaching(fn, base.id, at)
            if v is not None and not isinstance(v, Opaque):
                base = v
        if isinstance(base, ast.Call) and dotted(base.func) == "tree_to_triples":
            return "leaves" if src.slice.value == 0 else "triples"
    if isinstance(src, ast.Call) and isinstance(src.func, ast.Attribute) and dotted(src.func.value) == tree_var:
        if src.func.attr in ("get_leaf_names", "get_leaves", "iter_leaves", "iter_leaf_names"):
            return "leaves"
    if isinstance(src, (ast.GeneratorExp, ast.ListComp, ast.SetComp)):
        return _leaf_origin(fn, src.generators[0].iter, at, tree_loop, depth + 1)
    if isinstance(src, ast.Name) or dotted(src) == tree_var:
        return "leaves" if dotted(src) == tree_var else "unknown"
    return "unknown"


# ---------------------------------------------------------------------------
# balanced wrapping


def wrap_discipline(prog: Program) -> RuleResult:
    res = RuleResult(
        "WRAP-DISCIPLINE",
        "balanced_wrap only ever returns lines produced by textwrap.wrap(text, w, break_long_words=False) with "
        "w <= the requested width (the width is only decremented), and a narrower candidate replaces the greedy "
        "one only under a guard that its number of lines equals the greedy line count - hence every word is "
        "kept whole, no line exceeds the width unless a single word does, and no more lines than greedy "
        "wrapping are used (fact table: textwrap.wrap never splits a word when break_long_words=False)",
    )
    modname = "utils.text"
    mod = prog.module(modname)
    fn = prog.func(modname, "balanced_wrap")
    params = func_params(fn)
    width = params[1] if len(params) > 1 else "width"
    wraps = [c for c in calls_in(fn, nested=False) if dotted(c.func) in ("textwrap.wrap", "wrap")]
    if len(wraps) < 1:
        raise AnalysisError("balanced_wrap: no textwrap.wrap call found")
    for idx, call in enumerate(wraps):
        construct = f"{modname}:balanced_wrap/wrap#{idx}"
        blw = kwarg(call, "break_long_words")
        warg = kwarg(call, "width", 1)
        problems = []
        if not (isinstance(blw, ast.Constant) and blw.value is False):
            problems.append("break_long_words is not False: a word longer than the trial width is split across lines")
        if warg is None or dotted(warg) != width:
            problems.append(f"the width argument is `{short(warg)}`, not the (decremented) parameter `{width}`")
        if problems:
            res.fail(construct, "; ".join(problems), mod, call)
        else:
            res.ok(construct, short(call, 80))
    # the width is only decremented
    for node in walk_no_nested(fn):
        if isinstance(node, ast.AugAssign) and dotted(node.target) == width:
            construct = f"{modname}:balanced_wrap/width-update"
            if isinstance(node.op, ast.Sub) and isinstance(node.value, ast.Constant) and isinstance(node.value.value, int) and node.value.value > 0:
                res.ok(construct, short(node))
            else:
                res.fail(construct, f"`{short(node)}` can widen the trial width beyond the requested one", mod, node)
        elif isinstance(node, ast.Assign) and any(dotted(t) == width for t in node.targets):
            res.fail(f"{modname}:balanced_wrap/width-update", f"`{short(node)}` rebinds the width", mod, node)
    # replacement of the best candidate inside a loop requires the same number of lines
    rets = [n for n in walk_no_nested(fn) if isinstance(n, ast.Return) and n.value is not None]
    best = None
    for r in rets:
        if isinstance(r.value, ast.Call) and isinstance(r.value.func, ast.Attribute) and r.value.func.attr == "join" and r.value.args:
            best = dotted(r.value.args[0])
    if best is None:
        raise AnalysisError("balanced_wrap: `return sep.join(<best>)` not found")
    greedy = None
    for node in walk_no_nested(fn):
        if isinstance(node, ast.Assign) and any(dotted(t) == best for t in node.targets):
            inside = loops_around(fn, node)
            if not inside:
                greedy = node
                continue
            construct = f"{modname}:balanced_wrap/replace-best"
            cand = dotted(node.value)
            gs = guards(fn, node)
            ok = False
            for test, pol in gs:
                if _same_line_count(fn, test, pol, cand, best, node):
                    ok = True
            if ok:
                res.ok(construct, f"`{short(node)}` only when the candidate has the greedy number of lines")
            else:
                res.fail(construct, f"`{short(node)}` is not guarded by equality of the line counts", mod, node)
    if greedy is None:
        raise AnalysisError("balanced_wrap: initial (greedy) candidate not found")
    res.floor(4)
    return res


def _same_line_count(fn: ast.AST, test: ast.AST, pol: bool, cand: Optional[str], best: str, at: ast.AST) -> bool:
    """`len(cand) != line_count` known false / `len(cand) == line_count` known true, line_count = len(greedy)."""
    if not (isinstance(test, ast.Compare) and len(test.ops) == 1):
        return False
    op = test.ops[0]
    if isinstance(op, ast.NotEq) and pol or isinstance(op, ast.Eq) and not pol:
        return False
    if not isinstance(op, (ast.Eq, ast.NotEq)):
        return False
    sides = [test.left, test.comparators[0]]

    def is_len_of(expr: ast.AST, name: Optional[str]) -> bool:
        return isinstance(expr, ast.Call) and dotted(expr.func) == "len" and len(expr.args) == 1 and dotted(expr.args[0]) == name

    def is_greedy_count(expr: ast.AST) -> bool:
        if is_len_of(expr, best):
            return True
        if isinstance(expr, ast.Name):
            val = reaching(fn, expr.id, at)
            return val is not None and not isinstance(val, Opaque) and is_len_of(val, best)
        return False

    return (is_len_of(sides[0], cand) and is_greedy_count(sides[1])) or (is_len_of(sides[1], cand) and is_greedy_count(sides[0]))


# ---------------------------------------------------------------------------
# "no ordering" is only answered on evidence of a cycle


def empty_result_guard(prog: Program) -> RuleResult:
    res = RuleResult(
        "EMPTY-RESULT-GUARD",
        "toposort_all answers 'no ordering' (a constant empty list) only on evidence of a cycle that also holds "
        "for the graph without vertices: under the test that an enumerated ordering is shorter than the graph, "
        "or under a test that includes the graph being non-empty. 'No source vertex' alone is not evidence - "
        "the empty graph has no source and exactly one ordering, the empty one",
    )
    mod = prog.module(TOPO)
    fn = prog.func(TOPO, "toposort_all")
    gparam = func_params(fn)[0]
    n = 0
    for ret in walk_no_nested(fn):
        if not (isinstance(ret, ast.Return) and isinstance(ret.value, (ast.List, ast.Tuple)) and not ret.value.elts):
            continue
        n += 1
        gs = guards(fn, ret)
        construct = f"{TOPO}:toposort_all/empty-answer[" + (" and ".join(("" if p else "not ") + short(t, 40) for t, p in gs) or "always") + "]"
        justified = False
        mentions_graph = False
        for test, pol in gs:
            for lit, lpol in _lits(test, pol):
                names = {x.id for x in ast.walk(lit) if isinstance(x, ast.Name)}
                if gparam in names:
                    mentions_graph = True
                if _is_length_mismatch(lit, lpol, gparam):
                    justified = True
                if lpol and dotted(lit) == gparam:
                    justified = True  # `if graph and ...`
                if (
                    isinstance(lit, ast.Compare)
                    and len(lit.ops) == 1
                    and dotted(lit.left) is None
                    and isinstance(lit.left, ast.Call)
                    and dotted(lit.left.func) == "len"
                    and dotted(lit.left.args[0]) == gparam
                    and isinstance(lit.comparators[0], ast.Constant)
                    and lit.comparators[0].value == 0
                    and isinstance(lit.ops[0], (ast.Gt, ast.NotEq)) == lpol
                    and isinstance(lit.ops[0], (ast.Gt, ast.NotEq, ast.Eq))
                ):
                    justified = True
        cond = " and ".join(("" if p else "not ") + short(t, 60) for t, p in gs) or "unconditionally"
        if justified:
            res.ok(construct, f"`return []` under {cond}")
        elif not mentions_graph:
            res.fail(
                construct,
                f"`return []` under `{cond}`: this also holds for the graph without vertices, whose only "
                "ordering (the empty one) is then not returned",
                mod,
                ret,
            )
        else:
            raise AnalysisError(f"{construct}: guard `{cond}` of an empty answer is not understood")
    if n < 1:
        raise AnalysisError("EMPTY-RESULT-GUARD: toposort_all has no constant empty answer (cycle rejection vanished?)")
    return res


def _lits(test: ast.AST, pol: bool):
    while isinstance(test, ast.UnaryOp) and isinstance(test.op, ast.Not):
        test, pol = test.operand, not pol
    if isinstance(test, ast.BoolOp):
        if isinstance(test.op, ast.And) and pol:
            for v in test.values:
                yield from _lits(v, True)
            return
        if isinstance(test.op, ast.Or) and not pol:
            for v in test.values:
                yield from _lits(v, False)
            return
    yield test, pol


def _is_length_mismatch(lit: ast.AST, pol: bool, gparam: str) -> bool:
    if not (isinstance(lit, ast.Compare) and len(lit.ops) == 1):
        return False
    op = lit.ops[0]
    if not ((isinstance(op, (ast.NotEq, ast.Lt)) and pol) or (isinstance(op, (ast.Eq, ast.GtE)) and not pol)):
        return False
    sides = [lit.left, lit.comparators[0]]

    def len_of(e: ast.AST) -> Optional[str]:
        if isinstance(e, ast.Call) and dotted(e.func) == "len" and len(e.args) == 1:
            return dotted(e.args[0])
        return None

    return gparam in (len_of(sides[0]), len_of(sides[1])) and None not in (len_of(sides[0]), len_of(sides[1]))


# ---------------------------------------------------------------------------
# Kahn's loop


def kahn_loop(prog: Program) -> RuleResult:
    res = RuleResult(
        "KAHN-LOOP",
        "the single-ordering routine is Kahn's algorithm: each vertex taken from the ready queue is emitted exactly "
        "once, in the same iteration; the in-degree of each of ITS successors is decreased by one, unconditionally; "
        "a successor is queued exactly when its in-degree reaches zero; nothing else queues or emits a vertex. "
        "Then every emitted prefix is a valid partial ordering and a vertex is emitted only after all its "
        "predecessors (INDEG-INIT decides the initial counts and the final length test)",
    )
    from ..flow import consistent, paths

    mod = prog.module(TOPO)
    fn = prog.func(TOPO, "toposort")
    gparam = func_params(fn)[0]
    whiles = [w for w in fn.body if isinstance(w, ast.While)]
    if len(whiles) != 1:
        raise AnalysisError("toposort: main loop not recognised")
    loop = whiles[0]
    queue = dotted(loop.test)
    construct = f"{TOPO}:toposort/main-loop"
    if queue is None:
        raise AnalysisError("toposort: the loop does not run on the truth of the ready queue")
    pops = [
        st for st in loop.body
        if isinstance(st, ast.Assign) and isinstance(st.value, ast.Call) and isinstance(st.value.func, ast.Attribute)
        and st.value.func.attr in ("popleft", "pop") and dotted(st.value.func.value) == queue
    ]
    problems = []
    if len(pops) != 1 or loop.body.index(pops[0]) != 0:
        problems.append("a vertex is not taken from the ready queue at the top of each iteration")
        cur = None
    else:
        cur = dotted(pops[0].targets[0])
    rets = [r for r in walk_no_nested(fn) if isinstance(r, ast.Return) and isinstance(r.value, ast.Name)]
    out = rets[0].value.id if rets else None
    if out is None:
        raise AnalysisError("toposort: returned ordering not found")
    if cur:
        emits = [
            st for st in loop.body
            if isinstance(st, ast.Expr) and isinstance(st.value, ast.Call) and isinstance(st.value.func, ast.Attribute)
            and st.value.func.attr == "append" and dotted(st.value.func.value) == out
        ]
        if len(emits) != 1 or not (emits[0].value.args and dotted(emits[0].value.args[0]) == cur):
            problems.append(f"the vertex taken from the queue is not appended to `{out}` exactly once, unconditionally")
        other_emits = [
            c for c in calls_in(fn, nested=False)
            if isinstance(c.func, ast.Attribute) and c.func.attr in ("append", "extend", "insert") and dotted(c.func.value) == out
            and not any(c is e.value for e in emits)
        ]
        if other_emits:
            problems.append(f"`{short(other_emits[0])}` emits a vertex outside the queue discipline")
        succ_loops = [
            st for st in loop.body
            if isinstance(st, ast.For) and isinstance(st.iter, ast.Subscript) and dotted(st.iter.value) == gparam and dotted(st.iter.slice) == cur
        ]
        if len(succ_loops) != 1:
            problems.append(f"the successors `{gparam}[{cur}]` of the emitted vertex are not scanned exactly once")
        else:
            sl = succ_loops[0]
            v = dotted(sl.target)
            step = _indeg_step(sl)
            if step is None or step[1] != "-" or step[2] != 1:
                problems.append("the in-degree of each successor is not decreased by exactly one, unconditionally")
            else:
                table = step[0]
                pushes = [
                    c for c in calls_in(sl)
                    if isinstance(c.func, ast.Attribute) and c.func.attr in ("append", "appendleft", "add") and dotted(c.func.value) == queue
                ]
                if len(pushes) != 1 or not (pushes[0].args and dotted(pushes[0].args[0]) == v):
                    problems.append("a successor is not queued exactly once")
                else:
                    gs = guards(fn, pushes[0])
                    zero = any(
                        pol and isinstance(t, ast.Compare) and len(t.ops) == 1 and isinstance(t.ops[0], ast.Eq)
                        and sorted([ast.unparse(t.left), ast.unparse(t.comparators[0])]) == sorted([f"{table}[{v}]", "0"])
                        for t, pol in gs
                    )
                    if not zero:
                        problems.append(f"a successor is queued under a condition other than `{table}[{v}] == 0`")
                    dec_pos = next((i for i, st in enumerate(sl.body) if isinstance(st, ast.AugAssign)), None)
                    push_stmt = next((i for i, st in enumerate(sl.body) if any(c is pushes[0] for c in ast.walk(st))), None)
                    if dec_pos is None or push_stmt is None or push_stmt < dec_pos:
                        problems.append("the zero test is made before the in-degree is decreased")
        if any(isinstance(x, (ast.Break, ast.Continue)) for x in walk_no_nested(loop)):
            problems.append("an iteration can be cut short (break / continue)")
    if problems:
        res.fail(construct, "; ".join(problems), mod, loop)
    else:
        res.ok(construct, f"pop -> emit once -> decrement each successor -> queue at zero ({queue}, {out})")
    return res



RULES = {
    "KAHN-LOOP": kahn_loop,
    "EMPTY-RESULT-GUARD": empty_result_guard,
    "GROUPS-PAIRING": groups_pairing,
    "LEAVES-SOURCE": leaves_source,
    "WRAP-DISCIPLINE": wrap_discipline,
    "RESTORE-PAIRING": restore_pairing,
    "FRESH-STARTS": fresh_starts,
    "INDEG-INIT": indeg_init,
    "GRAPH-KEYS": graph_keys,
    "COPY-BEFORE-MUTATE": copy_before_mutate,
    "FRESH-ATTACH": fresh_attach,
    "FEATURE-COPY": feature_copy,
}
