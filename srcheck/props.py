"""Rule registry and the property -> rules table (DESIGN.md sections 3 and 4)."""
from __future__ import annotations

from .rules import dp, decode, cost, serial, utils, geom, render

RULES = {}
RULES.update(dp.RULES)
RULES.update(decode.RULES)
RULES.update(cost.RULES)
RULES.update(serial.RULES)
RULES.update(utils.RULES)
RULES.update(geom.RULES)
RULES.update(render.RULES)

PROPERTY_RULES = {
    "T00": list(decode.RULES),
    "T01": list(cost.RULES),
    "T02": list(serial.RULES),
    "T03": list(utils.RULES),
    "T04": list(geom.RULES),
    "T05": list(render.RULES),
    "C16": ["UPDATE-PAIRING", "RETENTION-GUARDS", "POLARITY", "PROXY-NONE", "COMBINE-PRODUCT"],
}

TRUSTED_BASE = [
    "CPython 3.12 ast module parses exactly what the interpreter runs",
    "the analysed text is what runs: /repo is installed editable, no generated module, no monkey-patching",
    "fact table for third-party code (ete3 traversal orders and leaf-only iteration, copy/detach freshness, "
    "infinity.inf ordering, tqdm transparency, itertools.product) is correct",
]

ASSUMPTIONS = [
    "static analysis of source shape only: nothing from /repo is imported or executed by this check",
    "a discharged rule is a necessary condition of the property, not the property itself",
]

PROPERTY_INFO = {}
