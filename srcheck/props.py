"""Rule registry and the property -> rules table (DESIGN.md sections 3 and 4)."""
from __future__ import annotations

from typing import Dict, List, Optional, Sequence, Tuple

from .rules import ancestry, bits, cost, decode, dp, events, extra, geom, purity, render, serial, utils

RULES = {}
for _m in (ancestry, bits, dp, decode, cost, events, purity, serial, utils, geom, render, extra):
    RULES.update(_m.RULES)

# construct prefixes
S_THL = ("compute.reconciliation:", "compute.reconciliation/", "compute.exhaustive:")
S_SPFS = ("compute.super_reconciliation:", "compute.super_reconciliation/")
S_USPFS = ("compute.unordered_super_reconciliation:", "compute.unordered_super_reconciliation/")
S_EVAL = ("model.reconciliation:",)
S_SUBSEQ = ("utils.subsequences:",)
ALL = None

Scoped = Tuple[str, Optional[Sequence[str]]]


def _r(name: str, *scopes: Sequence[str]) -> Scoped:
    if not scopes:
        return name, None
    merged: Tuple[str, ...] = ()
    for s in scopes:
        merged += tuple(s)
    return name, merged


S_COMPUTE = ("compute.",)
S_MODEL = ("model.",)
S_DP = ("utils.dynamic_programming:",)
S_TREES = ("utils.trees:",)
S_RENDER = ("render.",)
S_CLI = ("cli.",)
# functions a plain / ordered / unordered solve goes through (for the effect rules)
P_THL = S_THL + S_MODEL + S_DP + S_TREES
P_SPFS = S_SPFS + S_MODEL + S_DP + S_TREES + S_SUBSEQ + ("utils.toposort:", "compute.reconciliation:reconcile_lca")
P_USPFS = S_USPFS + S_MODEL + S_DP + S_TREES + ("compute.reconciliation:reconcile_lca",)
P_SOLVE = S_COMPUTE + S_MODEL + S_DP + S_TREES + S_SUBSEQ + ("utils.toposort:",)

PROPERTY_RULES: Dict[str, List[Scoped]] = {
    "C01": [
        _r("COSTKEYS", S_THL), _r("PRUNE", S_THL), _r("EVENT-SIG", S_THL), _r("CLASS-DOMAIN", S_THL),
        _r("MIRROR", S_THL), _r("COMBINE-ORIENT", S_THL), _r("INFO-KEY", S_THL), _r("DECODE-GUARD", S_THL),
        _r("DECODE-COMPLETE", S_THL), _r("DECODE-PRODUCT", S_THL), _r("LEAF-ANCHOR", S_THL),
        _r("RESULT-SCOPE", S_THL), _r("TRAVERSAL", ("compute.reconciliation:_compute_thl",)),
        _r("POLICY-FLOW", S_THL), _r("EVENT-TABLE"), _r("SOLVER-STATELESS", P_THL), _r("RECURSE-FORWARD", S_THL),
        _r("COST-TRUTH", S_THL), _r("READONLY-INPUT", S_THL), _r("ITERATOR-REUSE", S_THL), _r("MEMO-KEY", S_THL),
        _r("DERIVED-QUERIES"), _r("OPTIONAL-CHECKED", S_THL), _r("RESULT-UNCONDITIONAL", S_THL),
        _r("ENUM-PLACEMENTS"),
        _r("COST-GUARD", S_THL), _r("CANDIDATE-GUARDS", S_THL), _r("ENUM-NO-TRUNCATION", ("compute.exhaustive:", "compute.reconciliation:")), _r("HASH-IDENTITY", S_COMPUTE + S_MODEL),
        _r("MODEL-TABLE"), _r("LABEL-SIBLINGS"), _r("CONSERVED-SIDE"),
        _r("COMBINATOR-TOTAL", S_THL),
        _r("NAME-AS-KEY", ("utils.trees:LowestCommonAncestor",)),
        _r("UPDATE-PAIRING"), _r("RETENTION-GUARDS"), _r("POLARITY"),
        _r("CLOSURE-LATE-BINDING", ("compute.reconciliation:", "utils.dynamic_programming:")),
        _r("RMQ-WINDOWS"), _r("EULER-INDEX"),
        _r("VARARGS-AS-GIVEN"),
        _r("KIND-ENUM-BASE"),
        _r("FILL-OBJECT-MAJOR", ("compute.reconciliation:",)),
        _r("EVAL-NO-SHORTCUT"),
    ],
    "C02": [
        _r("SENTINEL", S_SPFS, S_SUBSEQ), _r("COSTKEYS", S_SPFS), _r("PRUNE", S_SPFS), _r("EVENT-SIG", S_SPFS),
        _r("CLASS-DOMAIN", S_SPFS), _r("MIRROR", S_SPFS), _r("COMBINE-ORIENT", S_SPFS), _r("INFO-KEY", S_SPFS),
        _r("SIBLING-PAIRING", S_SPFS), _r("DECODE-GUARD", S_SPFS), _r("DECODE-COMPLETE", S_SPFS),
        _r("DECODE-PRODUCT", S_SPFS), _r("LEAF-ANCHOR", S_SPFS), _r("RESULT-SCOPE", S_SPFS),
        _r("TRAVERSAL", S_SPFS), _r("GRAPH-KEYS", S_SPFS), _r("BASE-EXT-SHARE", S_SPFS), _r("POLICY-FLOW", S_SPFS),
        _r("SOLVER-STATELESS", P_SPFS), _r("READONLY-GRAPH"),
        _r("COST-TRUTH", S_SPFS), _r("READONLY-INPUT", S_SPFS), _r("ITERATOR-REUSE", S_SPFS + S_MODEL), _r("MEMO-KEY", S_SPFS),
        _r("RESULT-UNCONDITIONAL", S_SPFS), _r("OPTIONAL-CHECKED", S_SPFS), _r("NONE-SENTINEL-TRUTH", S_SUBSEQ),
        _r("EVENT-TABLE"), _r("ROOT-ORDER-SOURCE"), _r("COST-GUARD", S_SPFS), _r("CANDIDATE-GUARDS", S_SPFS), _r("OUTPUT-FLAG", S_SPFS),
        _r("STALE-INPUT", S_SPFS), _r("MASK-RANGE"), _r("SEGMENT-MACHINE"), _r("BIT-ORDER"),
        _r("ENUM-NO-TRUNCATION", S_SPFS),
        _r("MODEL-TABLE"), _r("LABEL-SIBLINGS"), _r("CONSERVED-SIDE"),
        _r("NAME-AS-KEY", ("utils.trees:LowestCommonAncestor",)),
        _r("UPDATE-PAIRING"), _r("RETENTION-GUARDS"), _r("POLARITY"),
        _r("ROOT-CONTENT", ("compute.super_reconciliation:",)),
        _r("CLOSURE-LATE-BINDING", ("compute.super_reconciliation:", "utils.dynamic_programming:")),
        _r("RMQ-WINDOWS"), _r("EULER-INDEX"),
        _r("EVAL-NO-SHORTCUT"),
        _r("VARARGS-AS-GIVEN"),
        _r("KIND-ENUM-BASE"),
        _r("FILL-OBJECT-MAJOR", ("compute.super_reconciliation:",)),
    ],
    "C03": [
        _r("READONLY-DECODE", S_USPFS), _r("COSTKEYS", S_USPFS), _r("PRUNE", S_USPFS), _r("EVENT-SIG", S_USPFS),
        _r("CLASS-DOMAIN", S_USPFS), _r("MIRROR", S_USPFS), _r("COMBINE-ORIENT", S_USPFS), _r("INFO-KEY", S_USPFS),
        _r("SIBLING-PAIRING", S_USPFS), _r("DECODE-GUARD", S_USPFS), _r("DECODE-COMPLETE", S_USPFS),
        _r("DECODE-PRODUCT", S_USPFS), _r("LEAF-ANCHOR", S_USPFS), _r("RESULT-SCOPE", S_USPFS),
        _r("TRAVERSAL", S_USPFS), _r("BASE-EXT-SHARE", S_USPFS), _r("POLICY-FLOW", S_USPFS),
        _r("DECODE-CONTENT-FLOW"), _r("SOLVER-STATELESS", P_USPFS),
        _r("COST-TRUTH", S_USPFS), _r("READONLY-INPUT", S_USPFS), _r("ITERATOR-REUSE", S_USPFS + S_MODEL), _r("MEMO-KEY", S_USPFS),
        _r("RESULT-UNCONDITIONAL", S_USPFS), _r("ELEMENT-UPDATE", S_USPFS),
        _r("EVENT-TABLE"), _r("COST-GUARD", S_USPFS), _r("CANDIDATE-GUARDS", S_USPFS), _r("OUTPUT-FLAG", S_USPFS), _r("SET-ALGEBRA-ARGS"),
        _r("STALE-INPUT", S_USPFS), _r("GAIN-AT-LCA"), _r("TREE-ITER-EXPLICIT", S_USPFS + S_MODEL),
        _r("ENUM-NO-TRUNCATION", S_USPFS),
        _r("MODEL-TABLE"), _r("LABEL-SIBLINGS"), _r("CONSERVED-SIDE"),
        _r("NAME-AS-KEY", ("utils.trees:LowestCommonAncestor",)),
        _r("UPDATE-PAIRING"), _r("RETENTION-GUARDS"), _r("POLARITY"),
        _r("ROOT-CONTENT", ("compute.unordered_super_reconciliation:",)),
        _r("CLOSURE-LATE-BINDING", ("compute.unordered_super_reconciliation:", "utils.dynamic_programming:")),
        _r("KINDS-COMPLETE"),
        _r("RMQ-WINDOWS"), _r("EULER-INDEX"),
        _r("EVAL-NO-SHORTCUT"),
        _r("VARARGS-AS-GIVEN"),
        _r("KIND-ENUM-BASE"),
        _r("FILL-OBJECT-MAJOR", ("compute.unordered_super_reconciliation:",)),
    ],
    "C04": [
        _r("DECODE-GUARD"), _r("DECODE-COMPLETE"), _r("LEAF-ANCHOR"), _r("SENTINEL"), _r("READONLY-DECODE"),
        _r("COMBINE-ORIENT"), _r("INFO-KEY"), _r("CLASS-DOMAIN"), _r("EVENT-EXHAUSTIVE"), _r("EVENT-TABLE"),
        _r("DECODE-CONTENT-FLOW"),
        _r("SOLVER-STATELESS", P_SOLVE), _r("MEMO-KEY"), _r("READONLY-INPUT"), _r("ORDER-PRESERVED"), _r("NO-PRUNED-TRAVERSAL", S_COMPUTE + S_MODEL),
        _r("LABEL-GUARD"), _r("RECURSE-FORWARD", S_TREES), _r("ELEMENT-UPDATE"), _r("FIELD-SOURCE"),
        _r("COST-PASSTHROUGH", S_MODEL), _r("GRAPH-KEYS"), _r("SET-ALGEBRA-ARGS"), _r("OUTPUT-FLAG"), _r("KEY-GUARD", S_MODEL + S_COMPUTE),
        _r("TREE-ITER-EXPLICIT"), _r("GAIN-AT-LCA"),
        _r("LCA-PROPAGATE"), _r("SORT-KEY-ALIGNED"),
        _r("ROOT-CONTENT"),
        _r("CLOSURE-LATE-BINDING", S_COMPUTE + S_DP + S_MODEL), _r("REFINEMENT-PAIRING"), _r("MAPPING-KEYING"), _r("STALE-INPUT"), _r("TREE-WRITE-ARGS"),
        _r("PARSE-READONLY"),
        _r("BRANCH-COMPLETE-ASSIGN", S_COMPUTE + S_MODEL), _r("ROOT-ORDER-SOURCE"),
    ],
    "C05": [
        _r("POLICY-FLOW"), _r("DECODE-PRODUCT"), _r("RESULT-SCOPE"), _r("PRUNE"), _r("UPDATE-PAIRING"),
        _r("RETENTION-GUARDS"), _r("COMBINE-PRODUCT"),
        # the retained set is the optimal set only if the table prices every candidate as the evaluator does,
        # offers every candidate family, and decodes what it priced
        _r("EVENT-SIG"), _r("COSTKEYS"), _r("CLASS-DOMAIN"), _r("MIRROR"), _r("INFO-KEY"), _r("COMBINE-ORIENT"),
        _r("DECODE-CONTENT-FLOW"), _r("READONLY-DECODE"), _r("SOLVER-STATELESS", P_SOLVE),
        _r("MEMO-KEY"), _r("EQ-BY-FIELDS"), _r("ITERATOR-REUSE", S_COMPUTE),
        _r("BASE-EXT-SHARE"), _r("RESULT-UNCONDITIONAL"),
        _r("ENUM-PLACEMENTS"),
        _r("EVENT-TABLE"), _r("ENUM-NO-TRUNCATION", S_COMPUTE), _r("HASH-IDENTITY", S_COMPUTE + S_MODEL), _r("COST-GUARD"), _r("CANDIDATE-GUARDS"),
        _r("TREE-ITER-EXPLICIT", S_COMPUTE + S_MODEL), _r("HASH-CANONICAL"), _r("UPDATE-ALL-CANDIDATES"),
        _r("MODEL-TABLE"), _r("LABEL-SIBLINGS"), _r("CONSERVED-SIDE"),
        _r("COMBINATOR-TOTAL"),
        _r("READONLY-INPUT"),
        _r("ROOT-CONTENT"),
        _r("CLOSURE-LATE-BINDING", S_COMPUTE + S_DP),
        _r("KINDS-COMPLETE"),
        _r("EVAL-NO-SHORTCUT"),
        _r("VARARGS-AS-GIVEN"),
        _r("GRAPH-KEYS"),
        _r("TABLE-ENTRY-POLICIES"),
        _r("FILL-OBJECT-MAJOR"),
    ],
    "C06": [
        _r("MODEL-TABLE"), _r("LABEL-SIBLINGS"), _r("EVENT-EXHAUSTIVE"), _r("EVENT-TABLE"), _r("CONSERVED-SIDE"),
        _r("TRAVERSAL", S_EVAL), _r("CLI-COST-SOURCE"), _r("COST-PASSTHROUGH", S_CLI),
        _r("SOLVER-STATELESS", S_MODEL + S_TREES + S_SUBSEQ),
        _r("COST-TRUTH", S_MODEL + S_CLI), _r("FIELD-COPY-COMPLETE", S_CLI),
        _r("DERIVED-QUERIES"),
        _r("SEGMENT-MACHINE"), _r("BIT-ORDER"), _r("COST-NO-ROUNDING"),
        _r("EVAL-NO-SHORTCUT"),
        _r("NAME-AS-KEY", ("utils.trees:LowestCommonAncestor",)),
        _r("DICT-KEYS"),
        _r("RMQ-WINDOWS"), _r("EULER-INDEX"),
        _r("COST-OPTIONS"),
        _r("UPDATE-PAIRING"), _r("RETENTION-GUARDS"), _r("POLARITY"), _r("LABEL-GUARD"),
        _r("TREE-ITER-EXPLICIT", S_MODEL),
        _r("KIND-ENUM-BASE"),
    ],
    "C07": [
        _r("LCA-PROPAGATE"), _r("TRAVERSAL", ("compute.reconciliation:reconcile_lca",)),
        _r("SOLVER-STATELESS", ("compute.reconciliation:reconcile_lca", "utils.trees:LowestCommonAncestor", "utils.trees:_euler", "utils.range_min_query:")),
        _r("READONLY-INPUT", ("compute.reconciliation:reconcile_lca",)), _r("COST-TRUTH", S_MODEL),
        _r("MODEL-TABLE", ("model.reconciliation:rec/",)), _r("EVENT-TABLE"),
        _r("RMQ-WINDOWS"), _r("EULER-INDEX"),
        _r("HASH-CANONICAL"),
        _r("PRIVATE-INDEX"),
        _r("NAME-AS-KEY", ("utils.trees:LowestCommonAncestor",)),
        _r("TREE-ITER-EXPLICIT", ("compute.reconciliation:",)),
        _r("FIELD-SOURCE", ("model.reconciliation:ReconciliationInput",)),
    ],
    "C08": [
        _r("TREE-WRITE-ARGS"), _r("FIELDS-SERIALISED"), _r("DICT-KEYS"), _r("FEATURE-COPY"),
        _r("RESULT-SCOPE", S_SPFS, S_USPFS), _r("LABEL-PASS", ("compute.",)),
        _r("FRESH-ATTACH", ("utils.trees:graft", "utils.trees:arrange_leaves", "utils.trees:binarize")),
        _r("TRAVERSAL", ("utils.trees:binarize",)), _r("RECURSE-FORWARD", S_TREES), _r("LABEL-GUARD"),
        _r("ITERATOR-REUSE", S_MODEL + S_TREES + S_COMPUTE), _r("ORDER-PRESERVED"),
        _r("RESULT-UNCONDITIONAL", S_SPFS, S_USPFS), _r("FIELD-SOURCE"), _r("SOLVER-STATELESS", S_TREES + S_MODEL),
        _r("BINARIZE-GUARD"), _r("NAME-AS-KEY"), _r("ENUM-NO-TRUNCATION", ("utils.trees:binarize", "utils.trees:graft", "utils.trees:arrange_leaves", "model.reconciliation:")),
        _r("COST-PASSTHROUGH", S_MODEL), _r("COPY-FAITHFUL", S_TREES + S_MODEL),
        _r("STALE-INPUT"), _r("TREE-ITER-EXPLICIT", S_COMPUTE + S_MODEL + S_TREES),
        _r("MAPPING-KEYING"),
        _r("ROOT-CONTENT"),
        _r("REFINEMENT-PAIRING"),
        _r("PARSE-READONLY"),
        _r("TREE-AS-GIVEN"),
    ],
    "C09": [
        _r("MIRROR"), _r("CLASS-DOMAIN"), _r("COST-HOMOGENEOUS"), _r("READONLY-DECODE"),
        _r("SOLVER-STATELESS", P_SOLVE),
        _r("COST-MONOTONE"), _r("MEMO-KEY"), _r("READONLY-INPUT"),
        _r("SORT-KEY-ALIGNED"),
        # a configuration and its mirror image are priced alike iff both are priced as the (orientation-free) model says
        _r("EVENT-SIG"), _r("MODEL-TABLE"), _r("CONSERVED-SIDE"), _r("ITERATOR-REUSE", S_COMPUTE), _r("COST-GUARD"), _r("CANDIDATE-GUARDS"),
        _r("INFO-KEY"), _r("COMBINE-ORIENT"), _r("GRAPH-KEYS"),
        _r("COMBINATOR-TOTAL"),
        _r("POLICY-FLOW"),
        _r("CLOSURE-LATE-BINDING", S_COMPUTE + S_DP),
        _r("KINDS-COMPLETE"),
        _r("UPDATE-PAIRING"), _r("RETENTION-GUARDS"), _r("POLARITY"), _r("RESULT-SCOPE"),
        _r("EQ-BY-FIELDS"),
        _r("FILL-OBJECT-MAJOR"),
    ],
    "C10": [
        _r("BASE-EXT-SHARE"), _r("EVENT-SIG"), _r("COSTKEYS"), _r("SIBLING-PAIRING"), _r("READONLY-DECODE"),
        _r("SOLVER-STATELESS", P_SOLVE),
        _r("CLASS-DOMAIN"), _r("MIRROR"),
        _r("EVENT-TABLE"), _r("DECODE-CONTENT-FLOW"), _r("COST-GUARD"), _r("CANDIDATE-GUARDS"),
        _r("READONLY-INPUT"),
        _r("MASK-RANGE"), _r("ENUM-NO-TRUNCATION", S_COMPUTE),
        _r("MODEL-TABLE"), _r("LABEL-SIBLINGS"), _r("CONSERVED-SIDE"),
        _r("GRAPH-KEYS"),
        _r("COMBINATOR-TOTAL"),
        _r("ROOT-CONTENT"),
        _r("CLOSURE-LATE-BINDING", S_COMPUTE + S_DP),
        _r("KINDS-COMPLETE"),
        _r("UPDATE-PAIRING"), _r("RETENTION-GUARDS"), _r("POLARITY"), _r("RESULT-SCOPE"),
        _r("GAIN-AT-LCA"),
        _r("FILL-OBJECT-MAJOR"),
    ],
    "C11": [
        _r("DICT-KEYS"), _r("FIELDS-SERIALISED"), _r("TREE-WRITE-ARGS"), _r("ENUM-DISJOINT"), _r("MAPPING-KEYING"),
        _r("COST-PASSTHROUGH", S_MODEL), _r("SOLVER-STATELESS", S_MODEL + S_TREES),
        _r("COST-TRUTH", S_MODEL), _r("ORDER-PRESERVED"),
        _r("FIELD-SOURCE"),
        _r("KEY-GUARD", S_MODEL), _r("COST-KEY-RESOLUTION"), _r("SORT-KEY-ALIGNED"), _r("COPY-FAITHFUL", S_MODEL),
        _r("TREE-ITER-EXPLICIT", S_MODEL), _r("HASH-CANONICAL"),
        _r("DERIVED-QUERIES"),
        _r("PARSE-READONLY"),
    ],
    "C12": [
        _r("LABEL-GUARD"), _r("REGISTRY-SIGNATURE"), _r("CHOICES-ENUM"),
        _r("ERROR-PATH"), _r("COST-OPTIONS"), _r("CLI-COST-SOURCE"), _r("COST-PASSTHROUGH"), _r("DISPATCH-KEYS"),
        _r("COST-TRUTH", S_CLI + S_MODEL), _r("FIELD-COPY-COMPLETE", S_CLI), _r("RESULT-SCOPE"),
        _r("LABEL-PASS", ("cli.", "compute.")), _r("LAYOUT-SIDES"), _r("LOSS-WALK"), _r("SORT-KEY-ALIGNED"), _r("RESULT-UNCONDITIONAL"),
        _r("TREE-WRITE-ARGS"), _r("KEY-GUARD", S_CLI + S_MODEL), _r("COST-KEY-RESOLUTION"), _r("ANCHOR-SET"), _r("CLI-FLOW-TABLE"), _r("DRAW-ANCHOR-SIDES"),
        _r("FEATURE-COPY"), _r("FINITE-ARITH"), _r("COST-NO-ROUNDING"), _r("TREE-ITER-EXPLICIT", S_CLI + S_MODEL),
        _r("IDENTITY-KEYS"), _r("EVENT-SIG"), _r("CLASS-DOMAIN"), _r("MIRROR"),
        _r("BRANCH-COMPLETE-ASSIGN"), _r("JSON-INFINITE-COSTS"), _r("MAPPING-KEYING"),
        _r("UNPACK-SPLIT"),
        _r("WIDTH-VERBATIM"), _r("DICT-KEYS"),
    ],
    "C13": [
        _r("KIND-EXHAUSTIVE"), _r("KIND-AGREE"), _r("ONE-EVENT-NODE"), _r("ONE-ARROW"), _r("LOSS-MARKERS"),
        _r("STYLE-DEFINED"), _r("MEASURE-LOCKSTEP"), _r("IDENTITY-KEYS"), _r("SOLVER-STATELESS", S_RENDER),
        _r("NO-PRUNED-TRAVERSAL", S_RENDER), _r("LOSS-WALK"), _r("SIGMA-DRAW"), _r("LAYOUT-SIDES"),
        _r("NO-TOPOLOGY-WRITE"),
        _r("PLACED-IN-SPECIES"),
        _r("LEAF-MAP-DOMAIN"), _r("ANCHOR-SET"), _r("DRAW-ANCHOR-SIDES"),
        _r("FINITE-ARITH"),
        _r("KIND-ENUM-BASE"),
        _r("BRANCH-COMPLETE-ASSIGN", S_RENDER),
        _r("MODEL-TABLE", ("model.reconciliation:rec/",)), _r("CONSERVED-SIDE"),
    ],
    "C14": [
        _r("SIGMA-INVARIANCE"), _r("SIGMA-CLOSURE"), _r("SOLVER-STATELESS", ("render.layout:", "utils.geometry:")),
        _r("LOSS-WALK"), _r("LAYOUT-SIDES"),
        _r("NO-TOPOLOGY-WRITE"),
        _r("FINITE-ARITH"), _r("ANCHOR-SET"), _r("SUBTREE-BOX"), _r("DRAW-ANCHOR-SIDES"),
        _r("READONLY-INPUT", S_RENDER), _r("IDENTITY-KEYS"),
        _r("GEOM-NO-ORDER"),
        _r("BRANCH-COMPLETE-ASSIGN", S_RENDER),
        _r("COLOR-INHERIT"),
    ],
    "C15": [
        _r("TEMPLATE-BRACES"), _r("TEMPLATE-TERMINATED"), _r("PICTURE-ENV"), _r("COLOR-INTERN"),
        _r("ESCAPE-TAINT"), _r("ESCAPE-ORDER"), _r("LABEL-OMIT"), _r("PREORDER-STATE", ("render.",)),
        _r("COLOR-SOURCE"), _r("WRAP-DISCIPLINE"),
        _r("COLOR-INHERIT"),
        _r("ORDER-PRESERVED"), _r("SOLVER-STATELESS", ("utils.text:", "utils.tex:", "render.", "model.synteny:")), _r("MEMO-KEY"),
        _r("LABEL-SOURCE"),
        _r("WIDTH-VERBATIM"),
        _r("READONLY-INPUT", S_RENDER),
        _r("WRAP-AFTER-ESCAPE"), _r("DRAW-COLOR-OWN"),
        _r("LABEL-LINEBREAKS"), _r("LOSS-COLOR-OWN"),
        _r("UNPACK-SPLIT", S_RENDER), _r("RECORD-FIELDS-AGREE"), _r("PARAM-NOT-REWRITTEN"),
        _r("WRAP-FINAL-TEXT"),
    ],
    "C16": [
        _r("UPDATE-PAIRING"), _r("RETENTION-GUARDS"), _r("POLARITY"), _r("PROXY-NONE"), _r("COMBINE-PRODUCT"),
        _r("TABLE-FRESH-CELLS"),
        _r("ENTRY-OWNS-TAGS"), _r("SOLVER-STATELESS", S_DP),
        _r("ENTRY-CTOR"),
        _r("UPDATE-ALL-CANDIDATES"),
        _r("ITERABLE-ONCE", S_DP),
        _r("PROXY-UPDATE-GATE"),
        _r("TAG-TEST-CONSISTENT"),
        _r("VARARGS-AS-GIVEN"),
        _r("TABLE-ENTRY-POLICIES"), _r("TABLE-KEY-OPAQUE"),
    ],
    "C17": [
        _r("DERIVED-QUERIES"), _r("EULER-INDEX"), _r("RMQ-WINDOWS"),
        _r("SOLVER-STATELESS", ("utils.trees:LowestCommonAncestor", "utils.trees:_euler", "utils.range_min_query:")),
        _r("TREE-ITER-EXPLICIT", S_TREES),
        _r("PRIVATE-INDEX"),
        _r("NAME-AS-KEY", ("utils.trees:LowestCommonAncestor",)),
        _r("NONE-SENTINEL-TRUTH", ("utils.range_min_query:", "utils.trees:")), _r("PROTOCOL-ONLY", ("utils.range_min_query:", "utils.trees:")), _r("OPTIONAL-CHECKED", ("utils.range_min_query:",)),
    ],
    "C18": [
        _r("BIT-ORDER"), _r("SEGMENT-MACHINE"), _r("SENTINEL", S_SUBSEQ),
        _r("SOLVER-STATELESS", S_SUBSEQ), _r("NONE-SENTINEL-TRUTH", S_SUBSEQ), _r("MEMO-KEY", S_SUBSEQ),
        _r("PROTOCOL-ONLY", ("utils.subsequences:",)),
    ],
    "C19": [
        _r("RESTORE-PAIRING"), _r("FRESH-STARTS"), _r("INDEG-INIT"), _r("GRAPH-KEYS"), _r("READONLY-GRAPH"),
        _r("EMPTY-RESULT-GUARD"),
        _r("SOLVER-STATELESS", ("utils.toposort:",)), _r("MEMO-KEY", ("utils.toposort:",)),
        _r("KAHN-LOOP"),
        _r("TOPO-VERDICT"), _r("ENUM-NO-TRUNCATION", ("utils.toposort:",)),
        _r("NODE-OPAQUE"),
        _r("GRAPH-AS-GIVEN"),
    ],
    "C20": [
        _r("COPY-BEFORE-MUTATE"),
        _r("FRESH-ATTACH", ("utils.trees:tree_", "utils.trees:all_trees", "utils.trees:trees_")),
        _r("GROUPS-PAIRING"), _r("LEAVES-SOURCE"),
        _r("SOLVER-STATELESS", ("utils.trees:", "utils.disjoint_set:")), _r("OPTIONAL-CHECKED", S_TREES), _r("MEMO-KEY", ("utils.trees:", "utils.disjoint_set:")),
        _r("ITERATOR-REUSE", S_TREES), _r("COPY-FAITHFUL", ("utils.trees:", "utils.disjoint_set:")),
        _r("ENUM-NO-TRUNCATION", ("utils.trees:all_trees", "utils.disjoint_set:")), _r("NAME-AS-KEY"),
        _r("TREE-ITER-EXPLICIT", S_TREES),
        _r("ITERABLE-ONCE", S_TREES),
        _r("BINARY-COARSENINGS"),
        _r("TRIPLES-SOURCE"), _r("CHAINED-ASSIGN-ORDER", ("utils.disjoint_set:", "utils.trees:")),
        _r("TRIPLES-RECURSION"),
        _r("SUPERTREE-DELEGATES"), _r("PROTOCOL-ONLY", ("utils.trees:", "utils.disjoint_set:")),
    ],
}

# eleventh batch of seeded changes
for _pid11, _more11 in {
    "C04": [_r("COSTKEYS")],
    "C05": [_r("MASK-RANGE")],
    "C09": [_r("GAIN-AT-LCA")],
    "C11": [_r("NO-LAZY-VALUES")],
    "C12": [_r("MODEL-TABLE"), _r("CONSERVED-SIDE"), _r("BINARIZE-GUARD")],
    "C13": [_r("DRAW-NO-SKIP")],
    "C14": [_r("EVENT-TABLE")],
    "C16": [_r("UPDATE-POLICY-SYMMETRIC"), _r("PROXY-CELL-STORE")],
    "C17": [_r("ANCESTRY-TOTAL")],
    "C20": [_r("PARENT-ENCAPSULATED")],
}.items():
    PROPERTY_RULES[_pid11] = PROPERTY_RULES[_pid11] + _more11

# development groups (not registered in MANIFEST.json)
DEV_GROUPS = {
    "ALL": [(name, None) for name in RULES],
}


def in_scope(construct: str, scope: Optional[Sequence[str]]) -> bool:
    return scope is None or any(construct.startswith(p) for p in scope)


TRUSTED_BASE = [
    "CPython 3.12 ast module parses exactly what the interpreter runs",
    "the analysed text is what runs: /repo is installed editable, no generated module, no monkey-patching",
    "fact table for third-party code (ete3 traversal orders and leaf-only iteration, copy/detach freshness, "
    "infinity.inf ordering, tqdm transparency, itertools.product) is correct",
    "srcheck's own normaliser / flow / resolver (about 5 kLOC of Python, exercised by the mutant+twin self-test)",
]

ASSUMPTIONS = [
    "static analysis of source shape only: nothing from /repo is imported or executed by this check",
    "a discharged rule is a necessary condition of the property, not the property itself",
]

PROPERTY_INFO: Dict[str, Dict] = {
    "C01": {
        "explanation": "Static analysis (ast): polynomial normal forms of every THL candidate (class entry x class "
        "entry x combinator) are compared with the cost evaluator's charge per event kind; species ranges of "
        "the class entries are compared with the event they are used for; the evaluator's classification "
        "predicate is extracted as a decision table over a finite relational model and compared with the "
        "documented classification; pruning, mirroring, decoder guards, traversal order and the absence of "
        "state that survives a call are checked structurally. Decides necessary conditions of optimality and "
        "of 'does not fail', not optimality itself.",
        "decided": [
            "every unit cost of the evaluator is read by the optimiser (COSTKEYS); no cost is used as a truth value with a fallback (COST-TRUTH)",
            "no tag-dependent cost after pruning (PRUNE)",
            "per event kind the composed candidate equals the evaluator's charge (EVENT-SIG)",
            "class-entry species ranges match the event kind, both child orientations present (CLASS-DOMAIN, MIRROR)",
            "node_event's decision table over all order types of (node, child, child) = documented classification (EVENT-TABLE)",
            "decoded mapping is the costed one (COMBINE-ORIENT, INFO-KEY)",
            "decoders never emit a partial mapping and enumerate all retained tags (DECODE-*)",
            "bottom-up fill, one anchored leaf entry, one result entry ranked by cost() (TRAVERSAL, LEAF-ANCHOR, RESULT-SCOPE)",
            "the result is a function of the arguments at call time: no memo, no module or object state, input not written, constraint parameters forwarded (SOLVER-STATELESS, MEMO-KEY, READONLY-INPUT, ITERATOR-REUSE, RECURSE-FORWARD)",
            "distance() counts edges, not branch lengths (DERIVED-QUERIES); no absent result is swallowed, no result-dependent exit skips ties (OPTIONAL-CHECKED, RESULT-UNCONDITIONAL)",
            "for every pair of child placements the exhaustive enumerator yields exactly the parent placements the documented classification accepts, each once (ENUM-PLACEMENTS, relational model)",
        ],
        "not_decided": [
            "that a recurrence with these properties is optimal (induction over trees)",
            "completeness / uniqueness of generate_all beyond its induction step (the product over the children is decided by DECODE-PRODUCT, the step by ENUM-PLACEMENTS; the induction itself is not mechanised)",
            "F-COHERENCE (placement at the LCA costed as duplication by the optimiser, speciation by the evaluator)",
        ],
    },
    "C02": {
        "explanation": "Static analysis (ast): the five class polynomials of the ordered recurrence and its six "
        "pairings are composed and compared with the evaluator's reconciliation + ordered labelling charge "
        "(incl. which child's end runs are free); the -1 sentinel must be tested before it is scaled; the "
        "precedence graph must contain every family; every path of the public variants runs the shared engine. "
        "Decides necessary conditions, not optimality.",
        "decided": [
            "sentinel tested before arithmetic use, dominating every call on the same pair (SENTINEL)",
            "candidate totals = evaluator totals per kind incl. LT/LF labelling modes (EVENT-SIG)",
            "species ranges per kind, both orientations (CLASS-DOMAIN, MIRROR)",
            "tags name the sub-problem whose value they carry (INFO-KEY); same pairings as the unordered sibling",
            "base variant = LCA species only, extended = all species, same engine, on every path - no cost-dependent shortcut (BASE-EXT-SHARE)",
            "precedence graph total on its vertices, edges first->second (GRAPH-KEYS); the sorters do not consume the graph (READONLY-GRAPH)",
            "no state survives a call, input not written, no cost used as a truth value (SOLVER-STATELESS, MEMO-KEY, READONLY-INPUT, ITERATOR-REUSE, COST-TRUTH)",
            "no result-dependent exit from the loops over refinements / root orders except a strict bound (RESULT-UNCONDITIONAL); sentinels tested with `is None` (NONE-SENTINEL-TRUTH)",
        ],
        "not_decided": [
            "optimality; completeness of the search over masks and root orders",
            "empty result when no order is compatible (runtime)",
            "values returned by subseq_segment_dist (C18)",
        ],
    },
    "C03": {
        "explanation": "Static analysis (ast): the 20 (parent kind x class x child kind) polynomials of the unordered "
        "recurrence are composed over the six pairings and compared with the evaluator's charge under the "
        "documented charge table; the decoder must not mutate shared sets and must hand each child the content "
        "of its parent. Necessary conditions only.",
        "decided": [
            "decoding performs no in-place operation on parameters / shared sets (READONLY-DECODE)",
            "children inherit exactly the content stored for their parent (DECODE-CONTENT-FLOW)",
            "candidate totals = evaluator totals with the unordered charge table (EVENT-SIG)",
            "ranges per kind, mirror closure, orientation, tag/row agreement, sibling pairings",
            "required-content sets computed bottom-up (TRAVERSAL)",
            "no state survives a call; a memo table keys on every varying parameter (SOLVER-STATELESS, MEMO-KEY, READONLY-INPUT, ITERATOR-REUSE, COST-TRUTH)",
            "a single family is never added as a collection of characters (ELEMENT-UPDATE); no result-dependent exit except a strict bound (RESULT-UNCONDITIONAL)",
        ],
        "not_decided": [
            "optimality; that the two canonical labellings per node lose nothing",
            "values of the gain / required-content sets",
        ],
    },
    "C04": {
        "explanation": "Static analysis (ast): cross-check of the sibling decoders and table fills of all solvers - "
        "guards of single-node outputs, completeness of the spread mappings, leaf anchoring, sentinel "
        "discipline, read-only decoding, content flow, event classification table, order of leaf syntenies "
        "through the binarisation round trip.",
        "decided": [
            "every node mapped (DECODE-GUARD, DECODE-COMPLETE, NO-PRUNED-TRAVERSAL)",
            "decoded mapping is the costed one (COMBINE-ORIENT, INFO-KEY, DECODE-CONTENT-FLOW)",
            "leaves pinned to their species / synteny with cost 0 (LEAF-ANCHOR); input mappings never written (READONLY-INPUT)",
            "non-subsequences skipped while filling (SENTINEL); shared sets not mutated (READONLY-DECODE)",
            "no candidate family can produce an INVALID event by range (CLASS-DOMAIN); node_event total and equal to the documented table (EVENT-EXHAUSTIVE, EVENT-TABLE)",
            "ordered leaf syntenies are never re-sorted on the way through to_dict/from_dict (ORDER-PRESERVED)",
            "no stale table: nothing survives a call (SOLVER-STATELESS, MEMO-KEY)",
            "refinements keep protected clades and get collision-free names (RECURSE-FORWARD, LABEL-GUARD); leaf syntenies parsed from the dictionary entry itself (FIELD-SOURCE); families stay whole strings (ELEMENT-UPDATE)",
        ],
        "not_decided": ["finiteness of the cost and family scoping as runtime facts"],
    },
    "C05": {
        "explanation": "Static analysis (ast): data flow of the policy parameter into every Table / result Entry, "
        "full product decoding, single result entry across loops, pruning discipline, partial evaluation of "
        "Entry.update's guards per retention policy; plus the conditions under which the retained set can be the "
        "optimal set at all: the table prices every candidate as the evaluator does, offers every family, "
        "decodes what it priced, and outputs compare by their fields.",
        "decided": [
            "policy reaches table and result entry (POLICY-FLOW)",
            "decoders enumerate the full product of retained tags (DECODE-PRODUCT, ITERATOR-REUSE)",
            "one result entry across refinements and root orders, ranked by cost() (RESULT-SCOPE)",
            "co-optimal candidates are not pruned early (PRUNE); table prices = evaluator prices, all families offered (EVENT-SIG, COSTKEYS, CLASS-DOMAIN, MIRROR)",
            "what is decoded is what was priced (INFO-KEY, COMBINE-ORIENT, DECODE-CONTENT-FLOW, READONLY-DECODE, MEMO-KEY)",
            "entry semantics per policy (UPDATE-PAIRING, RETENTION-GUARDS, COMBINE-PRODUCT)",
            "distinct solutions are not merged by a name-based equality (EQ-BY-FIELDS); nothing survives a call (SOLVER-STATELESS)",
            "every refinement / root order / species is enumerated whatever has been found so far, up to a strict bound (RESULT-UNCONDITIONAL); the extended variants offer every species on every path (BASE-EXT-SHARE)",
            "the exhaustive solver's placement step is complete, sound and non-repeating (ENUM-PLACEMENTS)",
        ],
        "not_decided": [
            "equality of the returned set with the true optimal set",
            "'exactly once' (depends on __eq__/__hash__ of ete3 nodes at run time)",
        ],
    },
    "C06": {
        "explanation": "Static analysis (ast): the evaluator's polynomial per event kind (unit cost, full-loss "
        "polynomial, labelling terms and the optimal / fixed choice of the free copy) is extracted by copy "
        "propagation and compared with a table of the documented model, including HOW the alternatives are "
        "chosen (min vs mapping test); node_event and every conserved-child test are evaluated as decision "
        "tables over a finite relational model; ordered and unordered evaluators are cross-checked as siblings; "
        "the command line passes the requested cost vector through verbatim.",
        "decided": [
            "unit cost key, full-loss polynomial, labelling modes and selector per kind = documented model (MODEL-TABLE)",
            "node_event = documented classification on every order type of (node, child, child) (EVENT-TABLE)",
            "every conserved-child test separates exactly the conserved from the transferred child (CONSERVED-SIDE)",
            "ordered and unordered evaluators charge the same child roles (LABEL-SIBLINGS)",
            "every event member handled, INVALID -> inf, LEAF -> 0 (EVENT-EXHAUSTIVE)",
            "masks computed parents-first (TRAVERSAL); CLI prints cost() of what it writes, for the cost vector that was requested (CLI-COST-SOURCE, COST-PASSTHROUGH, COST-TRUTH, FIELD-COPY-COMPLETE)",
            "the evaluator keeps no state between calls (SOLVER-STATELESS)",
            "distance() is the edge count the model speaks of (DERIVED-QUERIES)",
        ],
        "not_decided": [
            "values of distance(), the LCA oracle and subseq_segment_dist() (C17, C18)",
        ],
    },
    "C07": {
        "explanation": "Static analysis (ast, dataflow of one function): the LCA reconciliation assigns a leaf its "
        "given species and every internal node the LCA oracle of the images of all its children, in post-order, "
        "into a fresh mapping, and returns that mapping. Decides that the mapping computed is 'LCA of the "
        "children's images' (hence, by induction, of the species of its leaves) - a necessary condition of the "
        "property; optimality and uniqueness are not decided.",
        "decided": [
            "leaf anchored to leaf_object_species; internal image = species_lca over the images of all children (LCA-PROPAGATE)",
            "children computed before their parent (TRAVERSAL)",
            "the input's own mapping is not written, the LCA oracle shares nothing between instances (READONLY-INPUT, SOLVER-STATELESS)",
            "cost vectors read from a dictionary keep explicit zero costs (COST-TRUTH)",
            "the evaluator that defines 'minimum cost' charges duplications and speciations as the model says, and classifies nodes as the model says (MODEL-TABLE rec part, EVENT-TABLE)",
        ],
        "not_decided": [
            "minimality among all reconciliations and uniqueness for positive loss cost (numerical for-all)",
            "exactness of the LCA oracle itself (C17)",
        ],
    },
    "C08": {
        "explanation": "Static analysis (ast): every Newick write/read site, the field tables of the model "
        "classes, the attribute copy in binarize, freshness of attached subtrees, forwarding of the 'protected "
        "clades' constraint through the recursion, one-shot iterators and the loop structure around binarize().",
        "decided": [
            "refinements re-serialised with names, root name and colour; read back with a name-preserving format",
            "all input fields survive the to_dict/from_dict rebuild; ordered syntenies keep their order (ORDER-PRESERVED)",
            "names and colours of the original nodes copied onto every refinement (FEATURE-COPY)",
            "each refinement labelled before use, generated names collision-checked in a loop (LABEL-PASS, LABEL-GUARD); single result entry spans all refinements",
            "enumerated trees never share sub-trees (FRESH-ATTACH); polytomies resolved bottom-up (TRAVERSAL)",
            "graft forwards its `ignore` set in every recursive call (RECURSE-FORWARD); the product of refinements is not built from an exhausted iterator (ITERATOR-REUSE)",
            "refinements that tie are all enumerated (RESULT-UNCONDITIONAL); the root synteny entry survives the rebuild (FIELD-SOURCE); the enumerator keeps no cache keyed by a lossy Newick string (SOLVER-STATELESS)",
        ],
        "not_decided": ["the count (2k-3)!! and 'exactly once'", "that the optimum over refinements is attained"],
    },
    "C09": {
        "explanation": "Static analysis (ast): closure of the candidate families of the three recurrences under "
        "exchange of the two children; homogeneity (degree one) and monotonicity (non-negative coefficient of "
        "every unit cost) of every value the optimisers and the evaluator compute; absence of state that makes a "
        "second run or another visiting order see different data.",
        "decided": [
            "child-order symmetry of the candidate families of THL, SPFS and USPFS (MIRROR, CLASS-DOMAIN coverage)",
            "every value is a homogeneous linear form in the unit costs: scaling all costs by k scales every value by k (COST-HOMOGENEOUS)",
            "every unit cost has a coefficient that cannot be negative: raising it never lowers a value (COST-MONOTONE)",
            "re-run / visiting-order independence: nothing shared is mutated, nothing survives a call (READONLY-DECODE, READONLY-INPUT, SOLVER-STATELESS, MEMO-KEY)",
            "a configuration and its mirror image (children of an object node or of a species node exchanged) are priced alike: both orientations of every candidate equal the orientation-free model, and the evaluator picks the conserved child by the mapping, not by position (EVENT-SIG, MODEL-TABLE, CONSERVED-SIDE)",
            "the canonical order of unordered syntenies is a total order on mixed digit/letter names (SORT-KEY-ALIGNED)",
        ],
        "not_decided": ["renaming and outgroup invariance, hash/iteration order of Python sets (runtime)"],
    },
    "C10": {
        "explanation": "Static analysis (ast): 'extended <= base' by inclusion of search spaces through one shared, "
        "stateless engine run on every path; the three optimisers are compared with the SAME evaluator "
        "signature, which is the structural content of 'the models coincide on single-family inputs'.",
        "decided": [
            "base/extended share the engine on every path; extended offers all species nodes, base the LCA species (BASE-EXT-SHARE)",
            "THL, SPFS and USPFS all price events as the one evaluator does (EVENT-SIG, COSTKEYS); SPFS and USPFS use the same pairings (SIBLING-PAIRING); the three offer the same species ranges per event kind, in both orientations (CLASS-DOMAIN, MIRROR)",
            "the engine is a function of its arguments (READONLY-DECODE, SOLVER-STATELESS)",
        ],
        "not_decided": ["unordered <= ordered, DTL <= LCA and the single-family equalities as numerical facts"],
    },
    "C11": {
        "explanation": "Static analysis (ast): writer/reader key tables of the four model classes, Newick "
        "arguments, enum disjointness, mapping keying (exact names both ways), verbatim cost values, order of "
        "syntenies, no serialisation cache.",
        "decided": [
            "to_dict keys = _from_dict keys; _from_dict builds exactly the dataclass fields (DICT-KEYS, FIELDS-SERIALISED)",
            "trees written with names, root, colour and read with a compatible format (TREE-WRITE-ARGS)",
            "cost keys unambiguous (ENUM-DISJOINT); mappings keyed by exact name both ways, no normalising index (MAPPING-KEYING)",
            "cost values stored verbatim both ways, explicit zero and float infinity included (COST-PASSTHROUGH, COST-TRUTH)",
            "only sets are re-ordered when written (ORDER-PRESERVED); no cached serialisation outlives a relabelling (SOLVER-STATELESS)",
            "parsed mappings come from the dictionary entry alone, explicit entries win, the parsed trees are left as written (FIELD-SOURCE)",
        ],
        "not_decided": ["equality of the reloaded object (ete3's Newick parser/writer are outside the analysed source)"],
    },
    "C12": {
        "explanation": "Static analysis (ast): must-pass-through of label_internal on every path to a registered "
        "algorithm, guards inside label_internal, registry signatures, option/enum agreement, error path, "
        "verbatim cost options, class dispatch on key presence.",
        "decided": [
            "every registered algorithm receives a labelled input (LABEL-PASS)",
            "named nodes never renamed, generated names collision-checked, pre-order (LABEL-GUARD)",
            "registry only contains dispatchable signatures (REGISTRY-SIGNATURE); choices map onto enum members (CHOICES-ENUM)",
            "'needs syntenies' path returns before the algorithm runs, exit status 1, nothing dumped (ERROR-PATH)",
            "one option per cost key, passed verbatim incl. 0, and kept when the input is rebuilt (COST-OPTIONS, COST-PASSTHROUGH, COST-TRUTH, FIELD-COPY-COMPLETE); printed cost source (CLI-COST-SOURCE)",
            "draw / reconcile pick the labelled class only when the keys it needs are present (DISPATCH-KEYS)",
            "one result entry over all refinements whatever the policy - a necessary condition of 'all contains any' (RESULT-SCOPE)",
            "refinements are labelled inside the loop (LABEL-PASS in compute/), the sort key cannot raise on mixed names (SORT-KEY-ALIGNED), draw's layout sides and loss chains are consistent (LAYOUT-SIDES, LOSS-WALK)",
        ],
        "not_decided": ["distinctness of names at run time", "all superset of any as a set relation", "draw accepting every object beyond the key dispatch"],
    },
    "C13": {
        "explanation": "Static analysis (ast): kind dispatches are exhaustive and agree between layout, measuring "
        "and drawing; path enumeration counts event nodes and arrows per handler; loss insertion is compared "
        "with the evaluator's full-loss polynomial; virtual loss nodes are distinct keys and form a chain.",
        "decided": [
            "KIND-EXHAUSTIVE, KIND-AGREE, ONE-EVENT-NODE, ONE-ARROW",
            "LOSS-MARKERS (oracle: evaluator signature), STYLE-DEFINED, MEASURE-LOCKSTEP",
            "every object node is visited (NO-PRUNED-TRAVERSAL); loss nodes compare by identity and link to the previous one (IDENTITY-KEYS, LOSS-WALK)",
            "a drawing does not inherit layers from an earlier one (SOLVER-STATELESS)",
            "fork corners, leaf outlines, leaf and loss markers and path operators of the horizontal drawing are the transposed ones of the vertical drawing, as symbolic points (SIGMA-DRAW)",
            "branch.left / branch.right are the lineages below the first / second child species (speciation) resp. the conserved / transferred child (transfer), over every configuration of the relational model (LAYOUT-SIDES)",
            "the trees are not rewired while being laid out (NO-TOPOLOGY-WRITE)",
            "each node's branch is stored in the state of the species it is mapped to, and nowhere else; loss nodes in the species the walk is at (PLACED-IN-SPECIES)",
        ],
        "not_decided": ["absolute marker coordinates"],
    },
    "C14": {
        "explanation": "Static analysis (ast transformation): the transposition sigma is applied to the syntax "
        "trees of render/layout.py and utils/geometry.py and the canonical forms are compared - a syntactic "
        "proof that the horizontal layout is the transposed vertical layout of the transposed sizes.",
        "decided": [
            "horizontal = transposed vertical (SIGMA-INVARIANCE + SIGMA-CLOSURE)",
            "computing twice gives the same result: no state kept (SOLVER-STATELESS)",
            "every level of a multi-level loss references the node created just before, and the sides of a speciation branch are the lineages that live in the matching child species (LOSS-WALK, LAYOUT-SIDES) - necessary for 'every anchor referenced exists'",
            "the input trees are not rewired by a layout computation (NO-TOPOLOGY-WRITE)",
            "coordinates are polynomial / max / min expressions of the sizes and parameters: no division by a variable, no inf, no max() of a possibly empty collection (FINITE-ARITH) - a sufficient condition of 'all coordinates are finite'",
        ],
        "not_decided": ["non-overlap, containment, anchor existence in general (inequalities between sums of runtime sizes)"],
    },
    "C15": {
        "explanation": "Static analysis (ast): skeletons of all TeX templates (brace balance, termination), "
        "structure of render(), colour interning, taint tracking from names to templates through tex.escape, "
        "order of the escape chain, label omission guard, colour inheritance idiom vs traversal order, source of "
        "the colour of loss nodes, discipline of the balanced wrapper.",
        "decided": [
            "balanced braces and terminated statements for brace-free interpolants (TEMPLATE-*)",
            "single picture environment (PICTURE-ENV); colours defined before use (COLOR-INTERN)",
            "names escaped on every flow, in an order that does not double-escape (ESCAPE-TAINT, ESCAPE-ORDER)",
            "label omitted only when equal to the parent's (LABEL-OMIT)",
            "colour = nearest coloured ancestor: parent read in pre-order or descendants painted in post-order, no scalar carried across siblings, never read from a virtual node (COLOR-INHERIT, PREORDER-STATE, COLOR-SOURCE)",
            "wrapped labels: words never split, width only narrowed, candidate accepted only with the greedy line count (WRAP-DISCIPLINE)",
            "ordered syntenies are not re-sorted on the way to a label (ORDER-PRESERVED); no wrap / colour state survives a call (SOLVER-STATELESS, MEMO-KEY)",
            "a label is built from the synteny of the very node it is attached to (LABEL-SOURCE)",
        ],
        "not_decided": ["behaviour of textwrap itself", "that a label lists exactly the node's families"],
        "assumptions": ["names and family names contain no braces (the property's quantifier)"],
    },
    "C16": {
        "explanation": "Static analysis (ast): path enumeration of Entry.update, partial evaluation of its guards "
        "with the policies fixed, polarity of defaults, comparisons and explicit constructions, None-domination "
        "in EntryProxy, structure of Entry.combine, freshness of table cells.",
        "decided": [
            "UPDATE-PAIRING, RETENTION-GUARDS, POLARITY (incl. every Entry(...) construction), PROXY-NONE, COMBINE-PRODUCT, TABLE-FRESH-CELLS",
            "an entry owns its tag set (ENTRY-OWNS-TAGS); proxies keep no resolved cell (SOLVER-STATELESS)",
        ],
        "not_decided": ["that Python's comparison on infinity.Infinity is a total order (trusted)"],
    },
    "C17": {
        "explanation": "Static analysis (ast): the derived ancestry queries are evaluated as decision tables over a "
        "finite tree model with the LCA query and the level read as exact; the index discipline of the Euler "
        "tour (first occurrence, half-open range, re-visit after each child, tuple components) and the window "
        "algebra of the sparse table (2**e normalised symbolically) are checked as identities. Decides the "
        "definitions of the derived queries given an exact LCA, and necessary index identities of the LCA / "
        "range-minimum structures; does not decide the loop invariants of the sparse table as a whole.",
        "decided": [
            "is_ancestor_of / is_strict_ancestor_of / is_comparable / distance = their definitions, for every pair of nodes of the model, given exact LCA and level (DERIVED-QUERIES)",
            "first-occurrence index, range [min, max + 1), node re-visited after each child at level + 1, (level, node) components (EULER-INDEX)",
            "table level d = min of two adjacent half windows for every start with i + 2**d <= length; query windows start at `start` and end at `stop`; None iff start >= stop (RMQ-WINDOWS)",
            "no state shared between instances or calls (SOLVER-STATELESS)",
            "the tour is the tour of the whole tree given to the constructor; query bounds are used as given (EULER-INDEX, RMQ-WINDOWS)",
        ],
        "not_decided": [
            "that these identities imply exactness (induction over depth / tour positions)",
            "LCA of more than two nodes; behaviour on nodes outside the tree",
        ],
    },
    "C18": {
        "explanation": "Static analysis (ast): the mask writer and readers must agree on bit order (symbolic "
        "normal form of the shifted bit, shape of the scanning loops); the scanning loop of subseq_segment_dist "
        "is extracted as a finite-state transducer and the product with the reference run counter the property "
        "describes is explored exhaustively (equivalence of the two machines), together with the scan length.",
        "decided": [
            "bit i <-> element i in writer and both readers; complete mask = 2**len - 1 (BIT-ORDER)",
            "the scanning loop, read as a finite-state transducer (state variables, initialisation, loop body, final correction), agrees with the reference run counter in every reachable state of their product: same -1 verdicts (a foreign child bit; a longer child is rejected before the scan), same final answers, for both end modes and non-empty children - whatever the state design (SEGMENT-MACHINE)",
            "the -1 conditions do not depend on the end mode (SENTINEL, producer side)",
            "no decode cache or other state between calls (SOLVER-STATELESS, MEMO-KEY); exhaustion of the child is tested with `is None`, not truthiness (NONE-SENTINEL-TRUTH)",
        ],
        "not_decided": [
            "that the reference run counter itself is the number of maximal runs of missing parent elements (a definition-level induction over the scan, stated in the rule's sentence)",
            "round-trip identity as a whole (value-level)",
        ],
    },
    "C19": {
        "explanation": "Static analysis (ast): pairing of in-degree decrements and restores around the recursive "
        "call, freshness of the per-iteration start set, edge counting and cycle rejection, evidence required "
        "for the 'no ordering' answer, read-only graph, totality of the precedence graph.",
        "decided": ["RESTORE-PAIRING, FRESH-STARTS, INDEG-INIT, GRAPH-KEYS, READONLY-GRAPH, EMPTY-RESULT-GUARD", "no result cache between calls (SOLVER-STATELESS, MEMO-KEY)", "the single-ordering routine has the shape of Kahn's algorithm: pop, emit once, decrement each successor once, queue at zero (KAHN-LOOP)"],
        "not_decided": ["completeness / uniqueness of the enumeration as such (induction over the backtracking)"],
    },
    "C20": {
        "explanation": "Static analysis (ast): branch isolation of the two-block enumeration (deep copies) and of "
        "the tree enumeration (fresh attachments, interprocedural freshness summaries); pairing of links and "
        "block counter in unite; source of the leaf set of a supertree problem.",
        "decided": ["COPY-BEFORE-MUTATE", "FRESH-ATTACH", "GROUPS-PAIRING", "LEAVES-SOURCE", "a missing subtree (None) is tested before it is attached (OPTIONAL-CHECKED)", "no state between calls (SOLVER-STATELESS, MEMO-KEY)"],
        "not_decided": ["every 'exactly the trees displaying every triple' clause", "union-find values"],
    },
}


# clauses added in the fourth round (rules derived from the mutation sweep and the fourth batch of seeded changes)
_DECIDED_ROUND4 = {
    "C01": [
        "every combinator prices all pairs alike: one unconditional Candidate, no branch answering an infinite candidate for some pairs (COMBINATOR-TOTAL)",
        "every test that dominates a candidate in the table-filling functions is a leaf test, an ancestor-order predicate, the -1 sentinel or an infinity test - no pruning argument of another kind (CANDIDATE-GUARDS)",
        "the unit costs reach the recurrences through arithmetic only: no test depends on a value derived from the cost vector (COST-GUARD, interprocedural taint)",
        "the enumerator and the decoder have no early stop or count limit, and no hash() value is used as an identity (ENUM-NO-TRUNCATION, HASH-IDENTITY)",
    ],
    "C02": [
        "every test that dominates a candidate in the table-filling functions is a leaf test, an ancestor-order predicate, the -1 sentinel or an infinity test - no pruning argument of another kind (CANDIDATE-GUARDS)",
        "a prescribed root synteny is used verbatim as the only root order (ROOT-ORDER-SOURCE); outputs carry ordered=True (OUTPUT-FLAG)",
        "the evaluator's event table that ranks the decoded solutions is the documented one (EVENT-TABLE); no cost-dependent test (COST-GUARD)",
    ],
    "C03": [
        "every test that dominates a candidate in the table-filling functions is a leaf test, an ancestor-order predicate, the -1 sentinel or an infinity test - no pruning argument of another kind (CANDIDATE-GUARDS)",
        "set algebra on family sets never unpacks a synteny into characters (SET-ALGEBRA-ARGS); outputs carry ordered=False (OUTPUT-FLAG)",
        "the evaluator's event table that ranks the decoded solutions is the documented one (EVENT-TABLE); no cost-dependent test (COST-GUARD)",
    ],
    "C04": [
        "the cost vector survives the dictionary round trip of binarize unchanged and unfiltered (COST-PASSTHROUGH); precedence sets are extended, never replaced (GRAPH-KEYS)",
        "optional dictionary keys are read only where present (KEY-GUARD); the ordered flag matches the solver (OUTPUT-FLAG); family sets are not unpacked into characters (SET-ALGEBRA-ARGS)",
    ],
    "C05": [
        "every combinator prices all pairs alike: one unconditional Candidate, no branch answering an infinite candidate for some pairs (COMBINATOR-TOTAL)",
        "every test that dominates a candidate in the table-filling functions is a leaf test, an ancestor-order predicate, the -1 sentinel or an infinity test - no pruning argument of another kind (CANDIDATE-GUARDS)",
        "no early stop / count limit in decoders and enumerators, no hash() identity, no cost-dependent pruning (ENUM-NO-TRUNCATION, HASH-IDENTITY, COST-GUARD); evaluator event table (EVENT-TABLE)",
    ],
    "C07": [
        "the LCA oracle it relies on: Euler tour indices, sparse-table windows and level count (EULER-INDEX, RMQ-WINDOWS)",
    ],
    "C08": [
        "the unrefined shortcut needs BOTH trees binary and every refinement is written under the key of the tree it refines (BINARIZE-GUARD)",
        "subtrees are never identified by the name of their root (NAME-AS-KEY); copies are lossless (COPY-FAITHFUL); enumerators have no early stop (ENUM-NO-TRUNCATION); costs survive the round trip (COST-PASSTHROUGH)",
    ],
    "C09": [
        "every combinator prices all pairs alike: one unconditional Candidate, no branch answering an infinite candidate for some pairs (COMBINATOR-TOTAL)",
        "every test that dominates a candidate in the table-filling functions is a leaf test, an ancestor-order predicate, the -1 sentinel or an infinity test - no pruning argument of another kind (CANDIDATE-GUARDS)",
        "no one-shot iterator is walked twice (child order would decide which decodings survive) and no cost-dependent test (ITERATOR-REUSE, COST-GUARD)",
    ],
    "C10": [
        "every combinator prices all pairs alike: one unconditional Candidate, no branch answering an infinite candidate for some pairs (COMBINATOR-TOTAL)",
        "every test that dominates a candidate in the table-filling functions is a leaf test, an ancestor-order predicate, the -1 sentinel or an infinity test - no pruning argument of another kind (CANDIDATE-GUARDS)",
        "children decode from the content stored for their parent (DECODE-CONTENT-FLOW); evaluator event table (EVENT-TABLE); no cost-dependent pruning (COST-GUARD)",
    ],
    "C11": [
        "optional keys are read only on the branch where they are present (KEY-GUARD); cost keys resolve to the member of the right enumeration, members are kept (COST-KEY-RESOLUTION)",
        "the natural-sort key is built from every part of the split (SORT-KEY-ALIGNED); tree copies are lossless (COPY-FAITHFUL)",
    ],
    "C12": [
        "decision table of call_algorithm / reconcile / dump_results over (algorithm kind, input kind, answer shape): who is called with what, what is returned, status 1 exactly when nothing is written, one JSON document and newline per solution, the printed minimum is the cost of a returned solution and goes to stderr (CLI-FLOW-TABLE)",
        "trees are written with their root label (TREE-WRITE-ARGS); optional keys (KEY-GUARD); cost-key resolution (COST-KEY-RESOLUTION); anchors of drawn branches exist (ANCHOR-SET, LOSS-WALK)",
    ],
    "C13": [
        "abstract execution of _add_losses over the tree model: one loss node per skipped species, on the side the lineage comes from, linked to the node below, registered as anchor (LOSS-WALK)",
        "every handler registers its node as an anchor and removes only children it brought into the same species (ANCHOR-SET); the drawing code receives the total mapping, never the leaf mapping (LEAF-MAP-DOMAIN)",
        "anchor look-ups of the drawing code pair child layout k with the gene of side k; the transfer arrow ends at the anchor of the transferred child in the species it is mapped to (DRAW-ANCHOR-SIDES)",
    ],
    "C14": [
        "loss chains over the tree model (LOSS-WALK) and anchor bookkeeping (ANCHOR-SET): necessary for 'every anchor referenced by a drawn branch exists'",
        "the drawing code indexes the layout of child species k only with the gene stored on side k of the branch, never with a gene that is None on that path, looks the foreign end of a transfer up in the species that gene is mapped to, and reads its own anchors only after a membership test (DRAW-ANCHOR-SIDES)",
        "box lemma, proved symbolically for all non-negative child sizes, trunk sizes and spacing parameters: with the offsets and sizes paired as the positioning loop pairs them, the boxes of the two sibling species are disjoint along the across axis, lie inside the parent's box and start below the parent's trunk (SUBTREE-BOX; VERTICAL arm, the other follows by SIGMA-INVARIANCE)",
    ],
    "C15": [
        "the wrap width reaches the wrapping routine unchanged (WIDTH-VERBATIM); the text shown for a node's synteny does not depend on its parent's (LABEL-OMIT leaf-label-source)",
    ],
    "C16": [
        "decision table of Entry.__init__ for both call conventions: value, fresh tag set and the two policies come from the right arguments (ENTRY-CTOR)",
    ],
    "C17": [
        "the sparse table has enough levels for the deepest query, decided over lengths 1..64 by the analyser's own integer arithmetic (RMQ-WINDOWS level-count)",
    ],
    "C19": [
        "toposort answers None exactly on the failed completeness test (TOPO-VERDICT); the all-orderings routine has no early stop or count limit (ENUM-NO-TRUNCATION)",
    ],
    "C20": [
        "no one-shot iterator is handed to a parameter that is walked twice (ITERATOR-REUSE across calls); copies are lossless (COPY-FAITHFUL); enumerators have no early stop (ENUM-NO-TRUNCATION); subtrees are not identified by name (NAME-AS-KEY)",
    ],
}
_DECIDED_ROUND5 = {
    'C02': ['inside the loop over refinements only the refinement is read (STALE-INPUT); non-root nodes range over all subsequences of the root order (MASK-RANGE); the segment-distance transducer and the bit order it relies on (SEGMENT-MACHINE, BIT-ORDER)'],
    'C03': ['gain node of a family = LCA of all its carrier leaves (GAIN-AT-LCA); only the refinement is read inside the refinement loop (STALE-INPUT); no direct iteration of a tree (TREE-ITER-EXPLICIT)'],
    'C04': ['no direct iteration of a tree - it yields leaves only (TREE-ITER-EXPLICIT); gain nodes are LCAs of all carriers (GAIN-AT-LCA)'],
    'C05': ['hashes of solutions are insensitive to the order in which a mapping was filled (HASH-CANONICAL); Entry.update examines every candidate offered (UPDATE-ALL-CANDIDATES); no leaf-only iteration of species (TREE-ITER-EXPLICIT)'],
    'C06': ['the segment-distance transducer used for ordered labelling costs (SEGMENT-MACHINE, BIT-ORDER); costs are never rounded between the command line and the recurrences (COST-NO-ROUNDING)'],
    'C07': ["the hash of a solution does not depend on the insertion order of its mapping, so the LCA output meets the solvers' outputs in a set (HASH-CANONICAL)"],
    'C08': ['only the refinement is read inside the refinement loop (STALE-INPUT); no leaf-only iteration (TREE-ITER-EXPLICIT)'],
    'C10': ['no solver writes into the input it is given - the next solver sees the same problem (READONLY-INPUT)'],
    'C11': ['mappings are rebuilt from every node they cover, not by iterating a tree (TREE-ITER-EXPLICIT); hashes are order-free (HASH-CANONICAL)'],
    'C12': ['names and colours are copied onto refinements (FEATURE-COPY); no max/min of an empty collection in the layout (FINITE-ARITH); cost options are not rounded (COST-NO-ROUNDING)'],
    'C13': ['a species that hosts nothing does not make the layout fail (FINITE-ARITH)'],
    'C14': ['the layout does not write into the solution it draws, so computing it twice gives the same result (READONLY-INPUT on render); virtual loss nodes compare by identity (IDENTITY-KEYS, also for stand-ins created with arguments)'],
    'C15': ['the renderer does not write into the solution (escaping is not applied in place) (READONLY-INPUT on render)'],
    'C16': ['update examines every candidate it is offered, never a pre-selected or truncated batch (UPDATE-ALL-CANDIDATES)', 'the proxy forwards a batch whenever any candidate is finite: its gate does not rank the batch with min/max (PROXY-UPDATE-GATE)'],
    'C17': ['no direct iteration / len() of a tree in the ancestry structures (TREE-ITER-EXPLICIT)'],
    'C19': ['vertices are treated as opaque hashable values: never sorted or compared with < (NODE-OPAQUE)'],
    'C20': ['no direct iteration of a tree (TREE-ITER-EXPLICIT); deep copies of tree nodes use the detaching `.copy()` (COPY-FAITHFUL); a parameter annotated Iterable is walked once or materialised first (ITERABLE-ONCE)', 'abstract execution of DisjointSet.binary on every partition of 1..5 blocks in every listing order of the blocks: exactly the 2**(k-1) - 1 two-block coarsenings, each once (BINARY-COARSENINGS)', 'trees_to_triples returns every triple of every tree, not one per cherry (TRIPLES-SOURCE); no chained assignment reads a name it has just rebound (CHAINED-ASSIGN-ORDER)'],
}
_DECIDED_ROUND7 = {
    'C04': ['the drivers decode from the complete root synteny only (ROOT-CONTENT)', 'the data of an input reaches a refinement by name, never by the position of a leaf in a traversal (REFINEMENT-PAIRING); names are resolved exactly (MAPPING-KEYING); nothing computed on the unrefined input is used inside the refinement loop (STALE-INPUT); trees are written with their root and features (TREE-WRITE-ARGS)', 'no stored closure reads an iteration variable (CLOSURE-LATE-BINDING)'],
    'C08': ['the drivers decode from the complete root synteny only, whichever refinement is being solved (ROOT-CONTENT)', 'leaf data reach a refinement by name, never by position (REFINEMENT-PAIRING)'],
    'C10': ['both super-reconciliation drivers decode from the complete root synteny (ROOT-CONTENT)', 'every event combinator is bound to its own event: no stored closure reads an iteration variable (CLOSURE-LATE-BINDING)'],
    'C01': ['the ancestry oracle never identifies a species by its name (NAME-AS-KEY on LowestCommonAncestor); the table entries it fills keep the optimum with exact comparisons (UPDATE-PAIRING, RETENTION-GUARDS, POLARITY)'],
    'C03': ['the ancestry oracle never identifies a species by its name (NAME-AS-KEY on LowestCommonAncestor); exact comparisons in Entry.update (UPDATE-PAIRING, RETENTION-GUARDS, POLARITY)'],
    'C05': ['the drivers decode from the complete root synteny only (ROOT-CONTENT)', 'no solver writes into the input (a cost written by one algorithm would change what the next one retains) (READONLY-INPUT)'],
    'C07': ['species are never looked up by name in the ancestry oracle (NAME-AS-KEY); no `node in tree` test - ete3 answers it for strict descendants only (TREE-ITER-EXPLICIT)'],
    'C09': ['no stored closure reads an iteration variable (CLOSURE-LATE-BINDING)', 'aggregates inherit the retention policy of the table: none is created with a literal policy (POLICY-FLOW)'],
    'C17': ['queries resolve nodes by identity, never by name (NAME-AS-KEY on LowestCommonAncestor)'],
    'C02': ['species are never looked up by name in the ancestry oracle (NAME-AS-KEY); exact comparisons in Entry.update (UPDATE-PAIRING, RETENTION-GUARDS, POLARITY)', 'without a prescribed root, the root orders are toposort_all of the precedence graph of all families, not of a filtered graph completed by hand (ROOT-ORDER-SOURCE derived-root-orders)'],
    'C06': ['species are never looked up by name in the ancestry oracle (NAME-AS-KEY on LowestCommonAncestor)', 'every conditional return of the evaluator is selected by the event of the node - no closed-form shortcut for a subtree (EVAL-NO-SHORTCUT)'],
    'C11': ['parsing never rewrites the dictionary it is given nor shares one of its entries with the parsed object (PARSE-READONLY)', 'neither _from_dict nor from_dict edits a parsed tree (no relabelling of nodes that look unnamed) (FIELD-SOURCE tree-as-written)'],
    'C13': ['NodeEvent and EdgeEvent are plain Enum classes, so kinds of the two enumerations never compare equal (KIND-ENUM-BASE); every species looks at its genes - no species is skipped before the gene loop (PLACED-IN-SPECIES every-species)'],
    'C14': ['points, sizes and rectangles are never ordered as whole named tuples (GEOM-NO-ORDER)'],
    'C16': ['the tie branch and the improvement branch of update agree on what a tagged candidate is (TAG-TEST-CONSISTENT)'],
    'C18': ['the masks reach the scanning loop as given (SEGMENT-MACHINE masks-as-given)'],
    'C19': ['the ordering routines work on the graph they are given, not on a reduced or rebuilt one (GRAPH-AS-GIVEN)'],
    'C20': ['unite links only roots: both sides of every store into the parent table are find() results (GROUPS-PAIRING link-roots)'],
}
_DECIDED_ROUND8 = {
    'C01': ['the range-minimum structure under the ancestry oracle: windows, level count, only empty ranges refused (RMQ-WINDOWS), Euler indices and a table over the whole tour (EULER-INDEX)'],
    'C02': ['the range-minimum structure and Euler indices under the ancestry oracle (RMQ-WINDOWS, EULER-INDEX); the precedence graph is built from ALL leaf syntenies and no made-up order is used when no linear extension exists (ROOT-ORDER-SOURCE); every species is tried as host of the root object (RESULT-SCOPE root hosts); the evaluator that ranks the decoded solutions has no shortcut (EVAL-NO-SHORTCUT)'],
    'C03': ['both synteny kinds are tabulated for every (object, species) (KINDS-COMPLETE); RMQ-WINDOWS, EULER-INDEX, EVAL-NO-SHORTCUT as for C02'],
    'C04': ['no local is read after a conditional that assigns it on some branches only (BRANCH-COMPLETE-ASSIGN); the precedence graph covers all leaf syntenies, no fallback order (ROOT-ORDER-SOURCE)'],
    'C05': ['both synteny kinds are tabulated (KINDS-COMPLETE); no conditional expression chooses which batch of candidates an update receives by comparing values (CANDIDATE-GUARDS); no shortcut in the evaluator that ranks the solutions (EVAL-NO-SHORTCUT)'],
    'C06': ['a key of the dictionary form that is written only under a condition is read back with the matching default (DICT-KEYS conditional-key); the walk of the evaluator is never cut short by break / continue (EVAL-NO-SHORTCUT); RMQ-WINDOWS, EULER-INDEX under the distances it counts'],
    'C07': ['an explicit leaf assignment is read back through its parser from its own entry, not through the inference from names (FIELD-SOURCE parsed-from-own-entry)'],
    'C08': ['binarize removes no node and answers for the tree it is given (TREE-AS-GIVEN)'],
    'C09': ['both kinds tabulated (KINDS-COMPLETE); ties recognised by value equality (UPDATE-PAIRING, RETENTION-GUARDS, POLARITY); every species tried as root host, result entry fed inside all loops (RESULT-SCOPE)'],
    'C10': ['both kinds tabulated (KINDS-COMPLETE); gains at the LCA of all carriers (GAIN-AT-LCA); UPDATE-PAIRING, RETENTION-GUARDS, POLARITY, RESULT-SCOPE as for C09'],
    'C12': ['no local read after a conditional that assigns it on some branches only - a gene-free ancestral species must not make the layout fail (BRANCH-COMPLETE-ASSIGN); the JSON writer accepts infinite costs (JSON-INFINITE-COSTS); names are resolved exactly (MAPPING-KEYING)'],
    'C13': ['no call of _add_losses outside the handling of an event (LOSS-MARKERS no-other-loss-source); BRANCH-COMPLETE-ASSIGN on the layout code'],
    'C14': ['trunk lemma, proved symbolically with the child trunks modelled as rectangles read from utils/geometry.py: the trunks of two sibling species never overlap along the across axis, also when a trunk sticks out of its box (SUBTREE-BOX sibling-trunks-disjoint); BRANCH-COMPLETE-ASSIGN on the layout code'],
    'C15': ['wrapped labels reach TeX with TeX line breaks at every use (LABEL-LINEBREAKS); loss nodes take the colour of their own lineage on every path of the handler, also after the children were swapped (LOSS-COLOR-OWN)'],
    'C16': ['Entry(value, tags, merge_policy=...) and Entry(value, tags, retention_policy=...) keep the policy that was given (ENTRY-CTOR single-policy cases)'],
    'C17': ['only empty ranges are refused, decided over all ranges within data of length 1..6 (RMQ-WINDOWS only-empty-refused); the table indexes the whole tour (EULER-INDEX rmq-over-tour); the derived queries read the index, never `.up` of a node (DERIVED-QUERIES)'],
    'C18': ['mask_from_subseq / subseq_from_mask answer from the scan alone: no shortcut return, nothing depending on the type of the sequences (BIT-ORDER answer-from-the-scan)'],
    'C20': ['the triples of a group are all triples of the call inside the group; AllTrees answers [] only on the verdict of OneTree (TRIPLES-RECURSION)'],
}
_DECIDED_ROUND9 = {
    'C01': ['update hands on the batch it was given; a cell written for the first time starts empty (VARARGS-AS-GIVEN)'],
    'C05': ['update hands on the batch it was given; a cell written for the first time starts empty (VARARGS-AS-GIVEN); successor sets of the precedence graph are extended, never replaced by a dictionary merge (GRAPH-KEYS)'],
    'C06': ['each --cost-* option sets the documented unit cost (COST-OPTIONS option-of-each-cost); cost() is exactly the documented sum of its parts, nothing is charged above the root of the object tree (EVAL-NO-SHORTCUT sum-of-parts)'],
    'C10': ['the host species of the root object are neither restricted nor filtered (RESULT-SCOPE)'],
    'C12': ['a `<species>_<id>` leaf name is split from the right, once (UNPACK-SPLIT); cost options are evaluated as expressions (COST-NO-ROUNDING expressions)'],
    'C15': ['every kind of branch record treats the colour alike (RECORD-FIELDS-AGREE); get_color never replaces the colour it is asked for (PARAM-NOT-REWRITTEN); leaf names split from the right (UNPACK-SPLIT)'],
    'C16': ['update hands on the batch it was given: the vararg is never rebound or unpacked, and a cell written for the first time is created empty (VARARGS-AS-GIVEN)'],
}
_DECIDED_ROUND10 = {
    'C10': ['the tables are filled object by object, species inside: no fill helper is called with a species loop as its outermost loop (FILL-OBJECT-MAJOR)'],
    'C09': ['FILL-OBJECT-MAJOR; equality of solutions by fields (EQ-BY-FIELDS)'],
    'C01': ['the table is filled object by object (FILL-OBJECT-MAJOR); NodeEvent / EdgeEvent members are distinct objects with distinct values (KIND-ENUM-BASE)', 'the evaluator prices the kind that node_event assigns: the event local is bound once and no test of the evaluator reads the cost vector (EVAL-NO-SHORTCUT kind-from-node-event)'],
    'C05': ['nothing filters the decoded solutions between the decoder and the result entry (RESULT-SCOPE); entries handed out by Table.entry carry both policies of the table (TABLE-ENTRY-POLICIES)'],
    'C06': ['ties are recognised by exact equality in Entry.update, so the printed minimum is the cost of every written solution (UPDATE-PAIRING, RETENTION-GUARDS, POLARITY); generated labels are checked against every name of the tree (LABEL-GUARD); kind-from-node-event (EVAL-NO-SHORTCUT)'],
    'C12': ['the wrap width reaches the wrapping routine unchanged (WIDTH-VERBATIM); conditional keys of the dictionary form read back with the matching default (DICT-KEYS)'],
    'C13': ['the losses the evaluator counts on the conserved side of a transfer are those of the child that stays below the node (MODEL-TABLE, CONSERVED-SIDE); the state of a species is registered before its genes are handled (PLACED-IN-SPECIES state-registered-first)'],
    'C14': ['the colour is propagated in a pre-order pass of its own, so a second computation finds nothing left to push down (COLOR-INHERIT)'],
    'C15': ['format_synteny wraps the finished label and returns it as wrapped (WRAP-FINAL-TEXT)'],
    'C16': ['entries handed out by Table.entry carry both policies (TABLE-ENTRY-POLICIES); a table key is one key, whatever its type (TABLE-KEY-OPAQUE)'],
    'C17': ['an Optional value is compared with `is None`, never by truthiness (NONE-SENTINEL-TRUTH on Optional parameters); parameters annotated Sequence / Iterable are used through that protocol only (PROTOCOL-ONLY)'],
    'C18': ['only the -1 verdict is returned before the scan of subseq_segment_dist (SEGMENT-MACHINE answer-from-the-scan); Sequence parameters used as sequences (PROTOCOL-ONLY)'],
    'C20': ['supertree / all_supertrees hand the trees they are given to the triple decomposition and return its answer, nothing else (SUPERTREE-DELEGATES); PROTOCOL-ONLY'],
}
_DECIDED_ROUND11 = {
    'C04': ['every event is charged under its own cost key in the tables, so an event of infinite cost is never part of a returned solution (COSTKEYS)'],
    'C05': ['the candidate syntenies of an ancestral object are all sub-sequences of the root ordering, whoever enumerates them (MASK-RANGE)'],
    'C09': ['a family is gained at the lowest common ancestor of all the leaves that carry it, not of the first and last in listing order (GAIN-AT-LCA)'],
    'C11': ['no one-shot iterator is stored in a field, dictionary or record of the model (NO-LAZY-VALUES); no attribute of a parsed node is rewritten by the parser (FIELD-SOURCE tree-as-written)'],
    'C12': ['the printed cost is the documented cost: evaluator against the model (MODEL-TABLE, CONSERVED-SIDE); both trees are tested before the already-binary shortcut (BINARIZE-GUARD); the cost is printed without a rounding format (COST-NO-ROUNDING printed-as-is)'],
    'C13': ['every branch record is drawn: no jump in the loop of _tikz_draw_branches (DRAW-NO-SKIP)'],
    'C14': ['the event classifier the layout asks is the documented one (EVENT-TABLE): a speciation sits on the LCA of its children, so the child it links on each side exists there'],
    'C16': ['update compares every candidate under both merge policies, no early return and no fixed-direction min / max (UPDATE-POLICY-SYMMETRIC); the proxy stores the fresh entry into the cell (PROXY-CELL-STORE)'],
    'C17': ['building the ancestry structure refuses no rooted tree, a query refuses only the empty set (ANCESTRY-TOTAL)'],
    'C20': ['groups are formed from find(), parent links are not read elsewhere (PARENT-ENCAPSULATED)'],
}
for _k11, _v11 in _DECIDED_ROUND11.items():
    _DECIDED_ROUND10.setdefault(_k11, [])
    _DECIDED_ROUND10[_k11] = _DECIDED_ROUND10[_k11] + _v11
for _k10, _v10 in _DECIDED_ROUND10.items():
    _DECIDED_ROUND9.setdefault(_k10, [])
    _DECIDED_ROUND9[_k10] = _DECIDED_ROUND9[_k10] + _v10
for _k9, _v9 in _DECIDED_ROUND9.items():
    _DECIDED_ROUND8.setdefault(_k9, [])
    _DECIDED_ROUND8[_k9] = _DECIDED_ROUND8[_k9] + _v9
for _k8, _v8 in _DECIDED_ROUND8.items():
    _DECIDED_ROUND7.setdefault(_k8, [])
    _DECIDED_ROUND7[_k8] = _DECIDED_ROUND7[_k8] + _v8
for _k7, _v7 in _DECIDED_ROUND7.items():
    _DECIDED_ROUND5.setdefault(_k7, [])
    _DECIDED_ROUND5[_k7] = _DECIDED_ROUND5[_k7] + _v7
for _k5, _v5 in _DECIDED_ROUND5.items():
    _DECIDED_ROUND4.setdefault(_k5, [])
    _DECIDED_ROUND4[_k5] = _DECIDED_ROUND4[_k5] + _v5
for _k, _v in _DECIDED_ROUND4.items():
    PROPERTY_INFO[_k]["decided"] = list(PROPERTY_INFO[_k]["decided"]) + _v
