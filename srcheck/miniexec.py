"""A very small interpreter for first-order recursive list code over an abstract object model.

Used to follow `DisjointSet.binary` / `_binary` (a recursion over a list of block representatives that copies and
merges partitions) on every partition of up to five blocks and every listing order of the blocks.  The values are
Python ints, None, booleans, lists and instances of the rule's own model classes; the only operations are the ones
listed below - anything else raises `AnalysisError`.  No code of the package is executed: method calls on model
objects are dispatched to the MODEL's methods, never to the package's.
"""
from __future__ import annotations

import ast
from typing import Any, Callable, Dict, List, Optional

from .core import AnalysisError, dotted, short


class _Return(Exception):
    def __init__(self, value: Any):
        self.value = value


class MiniExec:
    def __init__(self, where: str, builtins: Optional[Dict[str, Callable[..., Any]]] = None, max_steps: int = 200000):
        self.where = where
        self.builtins = dict(builtins or {})
        self.functions: Dict[str, ast.FunctionDef] = {}
        self.steps = 0
        self.max_steps = max_steps
        self.depth = 0

    # -- entry points --------------------------------------------------------
    def call_function(self, fn: ast.FunctionDef, args: List[Any], kwargs: Dict[str, Any], closure: Optional[Dict[str, Any]] = None) -> Any:
        params = [a.arg for a in fn.args.args]
        env: Dict[str, Any] = dict(closure or {})
        for p, v in zip(params, args):
            env[p] = v
        for k, v in kwargs.items():
            if k not in params:
                raise AnalysisError(f"{self.where}: unknown keyword `{k}` in a call of {fn.name}")
            env[k] = v
        missing = [p for p in params if p not in env]
        if missing:
            raise AnalysisError(f"{self.where}: call of {fn.name} without {missing}")
        self.depth += 1
        if self.depth > 40:
            raise AnalysisError(f"{self.where}: the recursion does not terminate on the model (depth > 40)")
        try:
            self.block(fn.body, env)
        except _Return as ret:
            return ret.value
        finally:
            self.depth -= 1
        return None

    # -- statements ----------------------------------------------------------
    def block(self, stmts, env: Dict[str, Any]) -> None:
        for st in stmts:
            self.steps += 1
            if self.steps > self.max_steps:
                raise AnalysisError(f"{self.where}: the recursion does not terminate on the model")
            if isinstance(st, ast.Expr):
                if isinstance(st.value, ast.Constant):
                    continue
                self.value(st.value, env)
            elif isinstance(st, ast.FunctionDef):
                self.functions[st.name] = st
                env[st.name] = ("closure", st, env)
            elif isinstance(st, (ast.Assign, ast.AnnAssign)):
                if isinstance(st, ast.AnnAssign) and st.value is None:
                    continue
                val = self.value(st.value, env)
                targets = st.targets if isinstance(st, ast.Assign) else [st.target]
                for tgt in targets:
                    if isinstance(tgt, ast.Name):
                        env[tgt.id] = val
                    else:
                        raise AnalysisError(f"{self.where}: assignment target `{short(tgt)}` not understood")
            elif isinstance(st, ast.AugAssign) and isinstance(st.target, ast.Name) and isinstance(st.op, ast.Add):
                env[st.target.id] = self.add(env[st.target.id], self.value(st.value, env))
            elif isinstance(st, ast.If):
                self.block(st.body if self.truth(st.test, env) else st.orelse, env)
            elif isinstance(st, ast.For) and isinstance(st.target, ast.Name):
                seq = self.value(st.iter, env)
                if not isinstance(seq, (list, tuple, range)):
                    raise AnalysisError(f"{self.where}: iteration over `{short(st.iter)}` not understood")
                for item in list(seq):
                    env[st.target.id] = item
                    self.block(st.body, env)
            elif isinstance(st, ast.Return):
                raise _Return(self.value(st.value, env) if st.value is not None else None)
            elif isinstance(st, (ast.Pass, ast.Assert)):
                continue
            else:
                raise AnalysisError(f"{self.where}: statement `{short(st, 60)}` not understood")

    # -- expressions ---------------------------------------------------------
    def add(self, a: Any, b: Any) -> Any:
        if isinstance(a, list) and isinstance(b, list):
            return a + b
        if isinstance(a, int) and isinstance(b, int):
            return a + b
        raise AnalysisError(f"{self.where}: `+` on {type(a).__name__} and {type(b).__name__}")

    def truth(self, test: ast.AST, env: Dict[str, Any]) -> bool:
        val = self.value(test, env)
        if isinstance(val, (bool, int, list, tuple)) or val is None:
            return bool(val)
        return True

    def value(self, expr: ast.AST, env: Dict[str, Any]) -> Any:
        if isinstance(expr, ast.Constant):
            return expr.value
        if isinstance(expr, ast.Name):
            if expr.id in env:
                return env[expr.id]
            raise AnalysisError(f"{self.where}: name `{expr.id}` has no value")
        if isinstance(expr, ast.List):
            return [self.value(e, env) for e in expr.elts]
        if isinstance(expr, ast.Tuple):
            return tuple(self.value(e, env) for e in expr.elts)
        if isinstance(expr, ast.UnaryOp) and isinstance(expr.op, ast.Not):
            return not self.truth(expr.operand, env)
        if isinstance(expr, ast.UnaryOp) and isinstance(expr.op, ast.USub):
            return -self.value(expr.operand, env)
        if isinstance(expr, ast.BoolOp):
            if isinstance(expr.op, ast.And):
                res: Any = True
                for v in expr.values:
                    res = self.value(v, env)
                    if not self.truth_of(res):
                        return res
                return res
            res = False
            for v in expr.values:
                res = self.value(v, env)
                if self.truth_of(res):
                    return res
            return res
        if isinstance(expr, ast.BinOp) and isinstance(expr.op, (ast.Add, ast.Sub)):
            a, b = self.value(expr.left, env), self.value(expr.right, env)
            if isinstance(expr.op, ast.Add):
                return self.add(a, b)
            if isinstance(a, int) and isinstance(b, int):
                return a - b
            raise AnalysisError(f"{self.where}: `-` not understood in `{short(expr)}`")
        if isinstance(expr, ast.Compare) and len(expr.ops) == 1:
            a, b = self.value(expr.left, env), self.value(expr.comparators[0], env)
            op = expr.ops[0]
            if isinstance(op, ast.Is):
                return a is b
            if isinstance(op, ast.IsNot):
                return a is not b
            if isinstance(op, ast.Eq):
                return a == b
            if isinstance(op, ast.NotEq):
                return a != b
            if isinstance(op, (ast.In, ast.NotIn)) and isinstance(b, (list, tuple, set)):
                return (a in b) == isinstance(op, ast.In)
            if isinstance(a, int) and isinstance(b, int) and not isinstance(a, bool) and not isinstance(b, bool):
                if isinstance(op, ast.Lt):
                    return a < b
                if isinstance(op, ast.LtE):
                    return a <= b
                if isinstance(op, ast.Gt):
                    return a > b
                if isinstance(op, ast.GtE):
                    return a >= b
            raise AnalysisError(f"{self.where}: comparison `{short(expr)}` on {type(a).__name__}/{type(b).__name__} not understood")
        if isinstance(expr, ast.IfExp):
            return self.value(expr.body if self.truth(expr.test, env) else expr.orelse, env)
        if isinstance(expr, ast.Subscript):
            base = self.value(expr.value, env)
            if isinstance(base, (list, tuple)):
                if isinstance(expr.slice, ast.Slice):
                    lo = self.value(expr.slice.lower, env) if expr.slice.lower is not None else None
                    hi = self.value(expr.slice.upper, env) if expr.slice.upper is not None else None
                    if expr.slice.step is not None:
                        raise AnalysisError(f"{self.where}: stepped slice not understood")
                    return list(base[lo:hi])
                idx = self.value(expr.slice, env)
                if isinstance(idx, int):
                    if not -len(base) <= idx < len(base):
                        raise AnalysisError(f"{self.where}: `{short(expr)}` indexes past the end of the list on the model")
                    return base[idx]
            raise AnalysisError(f"{self.where}: subscript `{short(expr)}` not understood")
        if isinstance(expr, ast.Call):
            return self.call(expr, env)
        special = self.builtins.get("__special__")
        if special is not None and isinstance(expr, (ast.SetComp, ast.ListComp, ast.GeneratorExp, ast.DictComp)):
            out = special(self, expr, env)
            if out is not NotImplemented:
                return out
        raise AnalysisError(f"{self.where}: expression `{short(expr)}` not understood")

    @staticmethod
    def truth_of(val: Any) -> bool:
        if isinstance(val, (bool, int, list, tuple)) or val is None:
            return bool(val)
        return True

    def call(self, expr: ast.Call, env: Dict[str, Any]) -> Any:
        name = dotted(expr.func)
        if isinstance(expr.func, ast.Name) and isinstance(env.get(expr.func.id), tuple) and env[expr.func.id][0] == "closure":
            _tag, fn, closure = env[expr.func.id]
            args = [self.value(a, env) for a in expr.args]
            kwargs = {kw.arg: self.value(kw.value, env) for kw in expr.keywords if kw.arg}
            return self.call_function(fn, args, kwargs, closure)
        if name in self.builtins:
            args = [self.value(a, env) for a in expr.args]
            kwargs = {kw.arg: self.value(kw.value, env) for kw in expr.keywords if kw.arg}
            return self.builtins[name](*args, **kwargs)
        if isinstance(expr.func, ast.Attribute):
            recv = self.value(expr.func.value, env)
            meth = getattr(recv, "model_" + expr.func.attr, None)
            if meth is not None:
                args = [self.value(a, env) for a in expr.args]
                return meth(*args)
        special = self.builtins.get("__special__")
        if special is not None:
            out = special(self, expr, env)
            if out is not NotImplemented:
                return out
        raise AnalysisError(f"{self.where}: call `{short(expr, 60)}` not understood")
