"""Extraction of cost signatures: the evaluator's and the optimisers'.

Everything here is copy propagation + polynomial normal forms (sym.py) with
atoms renamed by *role*:

  c[K]        unit cost of event K (subscript of a cost vector by an enum member)
  S.x         optimal / recursive sub-cost of child x (x = a: first child, b: second)
  D.x         species-tree distance from the node's species to child x's species
  LT.x LF.x   lost segments between child x's and the node's synteny (ends counted / free)
  U.x         unordered labelling charge of child x
"""
from __future__ import annotations

import ast
import copy
from dataclasses import dataclass, field
from fractions import Fraction
from typing import Callable, Dict, List, Optional, Sequence, Set, Tuple

from .boolean import peval
from .core import (
    AnalysisError,
    FuncNode,
    Module,
    Program,
    calls_in,
    dotted,
    func_params,
    kwarg,
    short,
    walk_no_nested,
)
from .flow import Guard, Opaque, guards, inline, loops_around, reaching
from .resolve import method_def, resolve_callee
from .sym import Normaliser, Poly

EVENT_ENUMS = ("NodeEvent", "EdgeEvent")
KINDS = ("SPECIATION", "DUPLICATION", "HORIZONTAL_TRANSFER")
ROLE = {0: "a", 1: "b"}


def third_arg(call: ast.Call) -> Optional[ast.AST]:
    """Third argument of a call, however the keyword is spelled (two positionals + one keyword, or three positionals)."""
    if len(call.args) >= 3:
        return call.args[2]
    if len(call.args) == 2 and len(call.keywords) == 1 and call.keywords[0].arg is not None:
        return call.keywords[0].value
    return None


def cost_key(node: ast.AST) -> Optional[str]:
    """`<anything>[NodeEvent.K]` -> K."""
    if isinstance(node, ast.Subscript):
        name = dotted(node.slice)
        if name and "." in name and name.split(".")[0] in EVENT_ENUMS:
            return name.split(".")[1]
    return None


def cost_keys_in(node: ast.AST) -> Set[str]:
    return {k for k in (cost_key(n) for n in ast.walk(node)) if k}


def const_bool(node: ast.AST) -> Optional[bool]:
    if isinstance(node, ast.Constant) and isinstance(node.value, bool):
        return node.value
    return None


# ---------------------------------------------------------------------------
# evaluator


@dataclass
class EvalSignature:
    """kind -> alternative ('' | 'T=a' | 'T=b') -> polynomial."""

    rec: Dict[str, Dict[str, Poly]] = field(default_factory=dict)
    ordered: Dict[str, Dict[str, Poly]] = field(default_factory=dict)
    unordered: Dict[str, Dict[str, Poly]] = field(default_factory=dict)
    u_atoms: Dict[str, ast.AST] = field(default_factory=dict)  # U.a / U.b definitions
    sites: Dict[str, ast.AST] = field(default_factory=dict)
    # how the alternatives of (part, kind) are selected: '' (single), 'conserved' (test on which child
    # stays below the node), 'min' (the cheaper of the two assignments)
    selectors: Dict[str, str] = field(default_factory=dict)

    def total(self, model: str) -> Dict[str, Dict[str, Poly]]:
        """Alternatives of reconciliation + labelling cost per kind for a model
        (model in 'plain', 'ordered', 'unordered')."""
        out: Dict[str, Dict[str, Poly]] = {}
        lab = {"plain": None, "ordered": self.ordered, "unordered": self.unordered}[model]
        for kind in KINDS:
            alts: Dict[str, Poly] = {}
            rec_alts = self.rec[kind]
            lab_alts = lab[kind] if lab is not None else {"": Poly()}
            names = sorted(set(rec_alts) | set(lab_alts))
            names = [n for n in names if n] or [""]
            for name in names:
                r = rec_alts.get(name, rec_alts.get(""))
                l = lab_alts.get(name, lab_alts.get(""))
                if r is None or l is None:
                    raise AnalysisError(f"evaluator signature: alternative {name!r} of {kind} is incomplete")
                alts[name] = r + l
            out[kind] = alts
        return out


def _child_index_of(fn: ast.AST, expr: ast.AST, at: ast.AST, node_names: Sequence[str]) -> Optional[int]:
    """Which child (0/1) of the current node does `expr` denote?"""
    if isinstance(expr, ast.Name):
        val = reaching(fn, expr.id, at)
        if val is None or isinstance(val, Opaque):
            return None
        return _child_index_of(fn, val, val if hasattr(val, "lineno") else at, node_names)
    if (
        isinstance(expr, ast.Subscript)
        and isinstance(expr.value, ast.Attribute)
        and expr.value.attr == "children"
        and isinstance(expr.slice, ast.Constant)
        and expr.slice.value in (0, 1)
    ):
        return expr.slice.value
    return None


class _EvalHook:
    """Role names for atoms of the evaluator methods."""

    def __init__(self, fn: ast.AST, at: ast.AST):
        self.fn = fn
        self.at = at
        self.u_defs: Dict[str, ast.AST] = {}

    def child(self, expr: ast.AST) -> Optional[str]:
        idx = _child_index_of(self.fn, expr, self.at, ())
        return ROLE.get(idx) if idx is not None else None

    def rec_child(self, expr: ast.AST) -> Optional[str]:
        """rec[<child>] / self.object_species[<child>]"""
        if isinstance(expr, ast.Subscript):
            return self.child(expr.slice)
        return None

    def __call__(self, node: ast.AST) -> Optional[str]:
        key = cost_key(node)
        if key:
            return f"c[{key}]"
        if isinstance(node, ast.Call):
            f = node.func
            if isinstance(f, ast.Attribute) and f.attr == "_cost_rec" and len(node.args) == 1:
                ch = self.child(node.args[0])
                if ch:
                    return f"S.{ch}"
            if isinstance(f, ast.Attribute) and f.attr == "distance" and len(node.args) == 2:
                ch = self.rec_child(node.args[1])
                parent_is_node = isinstance(node.args[0], ast.Subscript) and self.child(node.args[0].slice) is None
                if ch and parent_is_node:
                    return f"D.{ch}"
                ch0 = self.rec_child(node.args[0])
                if ch0 and isinstance(node.args[1], ast.Subscript) and self.child(node.args[1].slice) is None:
                    return f"D.{ch0}"  # distance is symmetric
            if dotted(f) == "subseq_segment_dist" and len(node.args) + len(node.keywords) == 3:
                ch = self._mask_child(node.args[0])
                edges = third_arg(node)
                flag = const_bool(edges) if edges is not None else None
                if ch and flag is not None:
                    return f"L{'T' if flag else 'F'}.{ch}"
                if ch and edges is not None:
                    return f"L[{Normaliser().text(edges, False)}].{ch}"
        if isinstance(node, ast.IfExp):
            # unordered charge: 0 if parent_set <= child_set else sloss
            ch = self._subset_child(node.test)
            if ch:
                body = Normaliser(self).poly(node.body)
                other = Normaliser(self).poly(node.orelse)
                if body == Poly() and str(other) == "c[SEGMENTAL_LOSS]":
                    self.u_defs[f"U.{ch}"] = node
                    return f"U.{ch}"
                return f"Phi[sub.{ch}]({body};{other})"
        return None

    def _mask_child(self, expr: ast.AST) -> Optional[str]:
        """mask of child: mask_from_subseq(self.syntenies[<child>], ...)"""
        for sub in ast.walk(expr):
            if isinstance(sub, ast.Subscript):
                ch = self.child(sub.slice)
                if ch:
                    return ch
        return None

    def _subset_child(self, test: ast.AST) -> Optional[str]:
        if isinstance(test, ast.Compare) and len(test.ops) == 1 and isinstance(test.ops[0], ast.LtE):
            left, right = test.left, test.comparators[0]
            left, right = self._set_source(left), self._set_source(right)
            if left is None or right is None:
                return None  # `<=` on something else than two sets (sizes, sequences) is not the inclusion test
            chs = {self.child(s.slice) for s in ast.walk(right) if isinstance(s, ast.Subscript)} - {None}
            left_chs = {self.child(s.slice) for s in ast.walk(left) if isinstance(s, ast.Subscript)} - {None}
            if len(chs) == 1 and not left_chs:
                return next(iter(chs))
        return None

    def _set_source(self, expr: ast.AST, depth: int = 0) -> Optional[ast.AST]:
        """the set-building expression behind `expr` (through locals), or None when it is not visibly a set"""
        if depth > 3:
            return None
        if isinstance(expr, ast.Name):
            val = reaching(self.fn, expr.id, self.at)
            if val is None or isinstance(val, Opaque):
                return None
            return self._set_source(val, depth + 1)
        if isinstance(expr, ast.Call) and dotted(expr.func) in ("set", "frozenset") and len(expr.args) == 1:
            return expr
        if isinstance(expr, (ast.Set, ast.SetComp)):
            return expr
        if isinstance(expr, ast.BinOp) and isinstance(expr.op, (ast.BitAnd, ast.BitOr, ast.Sub)):
            a, b = self._set_source(expr.left, depth + 1), self._set_source(expr.right, depth + 1)
            if a is not None and b is not None:
                return expr
        return None


def _kind_of_guards(gs: Sequence[Guard]) -> Optional[str]:
    for test, pol in gs:
        if pol and isinstance(test, ast.Compare) and len(test.ops) == 1 and isinstance(test.ops[0], ast.Eq):
            for side in (test.left, test.comparators[0]):
                name = dotted(side)
                if name and name.startswith("NodeEvent.") and name.split(".")[1] in KINDS:
                    return name.split(".")[1]
    return None


def _conserved_test(test: ast.AST, hook: _EvalHook) -> Optional[str]:
    """`is_ancestor_of(rec[node], rec[X])` / `is_comparable(rec[node], rec[X])` -> role of X."""
    if isinstance(test, ast.Call) and isinstance(test.func, ast.Attribute) and len(test.args) == 2:
        if test.func.attr in ("is_ancestor_of", "is_comparable"):
            a, b = test.args
            ca, cb = hook.rec_child(a), hook.rec_child(b)
            if cb and not ca:
                return cb
            if ca and not cb and test.func.attr == "is_comparable":
                return ca
    return None


def _split_alternatives(fn: ast.AST, expr: ast.AST, at: ast.AST, hook: _EvalHook, selector: Optional[List[str]] = None) -> Dict[str, ast.AST]:
    """Expand `min(x, y)` and selections on 'which child is conserved' into named alternatives.

    `selector` (a list used as an out-parameter) receives 'conserved', 'min' or ''."""
    selector = selector if selector is not None else []
    expr = inline(fn, expr, at)
    # (1) selection on the conserved child
    tests = []
    for sub in ast.walk(expr):
        cand = None
        if isinstance(sub, ast.IfExp):
            cand = sub.test
        elif isinstance(sub, ast.Call) and isinstance(sub.func, ast.Attribute) and sub.func.attr in ("is_ancestor_of", "is_comparable"):
            cand = sub
        if cand is not None:
            role = _conserved_test(cand, hook)
            if role:
                tests.append((cand, role))
    if tests:
        role = tests[0][1]
        key = ast.dump(tests[0][0])
        if any(ast.dump(t) != key for t, _r in tests):
            raise AnalysisError("evaluator: several different conserved-child tests in one expression")
        out = {}
        for truth in (True, False):
            conserved = role if truth else ("b" if role == "a" else "a")
            out[f"T={conserved}"] = _subst_truth(expr, key, truth)
        selector.append("conserved")
        return out
    # (2) min over two assignments
    mins = [s for s in ast.walk(expr) if isinstance(s, ast.Call) and dotted(s.func) == "min" and len(s.args) == 2]
    if len(mins) == 1:
        out = {}
        for pos, arg in enumerate(mins[0].args):
            pol = Normaliser(hook).poly(arg)
            text = str(pol)
            charged_a = "LT.a" in text or "U.a" in text
            charged_b = "LT.b" in text or "U.b" in text
            if charged_a == charged_b:
                # not recognisable by content: name by position (a mismatch with the model is then reported)
                name = "T=a" if pos == 0 else "T=b"
            else:
                name = "T=a" if charged_a else "T=b"
            if name in out:
                name = "T=b" if name == "T=a" else "T=a"
            out[name] = _replace_node(expr, mins[0], arg)
        selector.append("min")
        return out
    selector.append("")
    return {"": expr}


def _subst_truth(expr: ast.AST, key: str, truth: bool) -> ast.AST:
    class Sub(ast.NodeTransformer):
        def visit(self, node):
            if ast.dump(node) == key:
                return ast.Constant(value=truth)
            node = self.generic_visit(node)
            if isinstance(node, ast.IfExp) and isinstance(node.test, ast.Constant) and isinstance(node.test.value, bool):
                return node.body if node.test.value else node.orelse
            if isinstance(node, ast.UnaryOp) and isinstance(node.op, ast.Not) and isinstance(node.operand, ast.Constant):
                return ast.Constant(value=not node.operand.value)
            return node

    return Sub().visit(copy.deepcopy(expr))


def _replace_node(expr: ast.AST, old: ast.AST, new: ast.AST) -> ast.AST:
    key = ast.dump(old)

    class Sub(ast.NodeTransformer):
        def visit(self, node):
            if ast.dump(node) == key:
                return copy.deepcopy(new)
            return self.generic_visit(node)

    return Sub().visit(copy.deepcopy(expr))


MODEL = "model.reconciliation"


def evaluator_signature(prog: Program) -> EvalSignature:
    if "evaluator_signature" not in prog.memo:
        prog.memo["evaluator_signature"] = _evaluator_signature(prog)
    return prog.memo["evaluator_signature"]


def _evaluator_signature(prog: Program) -> EvalSignature:
    sig = EvalSignature()
    out_cls = prog.cls(MODEL, "ReconciliationOutput")
    sup_cls = prog.cls(MODEL, "SuperReconciliationOutput")
    cost_rec = method_def(out_cls, "_cost_rec")
    ordered = method_def(sup_cls, "_ordered_labeling_cost")
    unordered = method_def(sup_cls, "_unordered_labeling_cost")
    if cost_rec is None or ordered is None or unordered is None:
        raise AnalysisError("evaluator methods (_cost_rec, _ordered_labeling_cost, _unordered_labeling_cost) not found")

    # --- reconciliation part: return statements per kind
    for node in walk_no_nested(cost_rec):
        if isinstance(node, ast.Return) and node.value is not None:
            kind = _kind_of_guards(guards(cost_rec, node))
            if kind is None:
                continue
            hook = _EvalHook(cost_rec, node)
            sel: List[str] = []
            alts = _split_alternatives(cost_rec, node.value, node, hook, sel)
            sig.rec[kind] = {name: Normaliser(hook).poly(e) for name, e in alts.items()}
            sig.sites[f"rec.{kind}"] = node
            sig.selectors[f"rec.{kind}"] = sel[0]
    # --- labelling parts: accumulations per kind
    for fn, store in ((ordered, sig.ordered), (unordered, sig.unordered)):
        for node in walk_no_nested(fn):
            if isinstance(node, ast.AugAssign) and isinstance(node.op, ast.Add):
                kind = _kind_of_guards(guards(fn, node))
                if kind is None:
                    continue
                hook = _EvalHook(fn, node)
                # conserved-child selection may be an if-statement around the accumulation
                stmt_role = None
                for test, pol in guards(fn, node):
                    role = _conserved_test(inline(fn, test, node), hook)
                    if role:
                        stmt_role = role if pol else ("b" if role == "a" else "a")
                sel = []
                alts = _split_alternatives(fn, node.value, node, hook, sel)
                polys = {name: Normaliser(hook).poly(e) for name, e in alts.items()}
                if stmt_role:
                    if set(polys) != {""}:
                        raise AnalysisError("evaluator: nested conserved-child selections")
                    polys = {f"T={stmt_role}": polys[""]}
                    sel = ["conserved"]
                part = "ordered" if fn is ordered else "unordered"
                prev_sel = sig.selectors.get(f"{part}.{kind}")
                if prev_sel is not None and prev_sel != sel[0]:
                    raise AnalysisError(f"evaluator {fn.name}: {kind} alternatives selected in two different ways")
                sig.selectors[f"{part}.{kind}"] = sel[0]
                for name, pol in polys.items():
                    if name in store.setdefault(kind, {}):
                        store[kind][name] = store[kind][name] + pol
                    else:
                        store[kind][name] = pol
                sig.u_atoms.update(hook.u_defs)
                sig.sites[f"{fn.name}.{kind}"] = node
    for name, store in (("_cost_rec", sig.rec), ("_ordered_labeling_cost", sig.ordered), ("_unordered_labeling_cost", sig.unordered)):
        missing = [k for k in KINDS if k not in store]
        if missing:
            raise AnalysisError(f"evaluator {name}: no cost expression recognised for {missing}")
    return sig


# ---------------------------------------------------------------------------
# optimisers


@dataclass
class CandidateSite:
    node: ast.Call  # Candidate(...) call
    value: ast.AST  # inlined value expression
    info: Optional[ast.AST]  # inlined info expression
    guards: List[Guard]
    loops: List[ast.AST]
    poly: Optional[Poly] = None
    child: Optional[object] = None  # 0, 1 or 'i'
    child_kind: Optional[str] = None  # USPFS: LCA / INHERIT
    s_keys: Tuple[str, ...] = ()


@dataclass
class EntryClass:
    ref: Tuple  # canonical reference
    label: str
    sites: List[CandidateSite] = field(default_factory=list)
    parent_kind: Optional[str] = None


@dataclass
class Combine:
    call: ast.Call
    receiver: Tuple
    argument: Tuple
    comb_expr: ast.AST
    comb_value: ast.AST  # value expression of the combinator with its params named left/right
    comb_info: Optional[ast.AST]
    comb_params: Tuple[str, str]
    comb_label: str


@dataclass
class Recurrence:
    mod: Module
    modname: str
    fn: ast.AST
    combines: List[Combine]
    classes: Dict[Tuple, EntryClass]
    model: str  # plain | ordered | unordered
    parent_kinds: List[Optional[str]]
    root_species: str
    root_object: str


def _enum_value(fn: ast.AST, expr: ast.AST, at: ast.AST) -> Optional[str]:
    """Resolve a name/attribute to `SyntenyAssignment.X` -> X."""
    name = dotted(expr)
    if name and name.startswith("SyntenyAssignment."):
        return name.split(".", 1)[1]
    if isinstance(expr, ast.Name):
        val = reaching(fn, expr.id, at)
        if val is not None and not isinstance(val, Opaque):
            return _enum_value(fn, val, val if hasattr(val, "lineno") else at)
    return None


def resolve_combinator(prog: Program, mod: Module, fn: ast.AST, expr: ast.AST, at: ast.AST):
    """-> (params, value expr, info expr, label) of the Candidate the combinator returns."""
    # local def
    if isinstance(expr, ast.Name):
        for sub in walk_no_nested(fn):
            if isinstance(sub, FuncNode) and sub.name == expr.id:
                rets = [n for n in walk_no_nested(sub) if isinstance(n, ast.Return) and n.value is not None]
                if len(rets) != 1:
                    raise AnalysisError(f"combinator {expr.id}: expected a single return")
                params = func_params(sub)
                value, info = _candidate_parts(rets[0].value)
                value = inline(sub, value, rets[0])
                value = inline(fn, value, sub)
                return tuple(params[:2]), value, info, expr.id
        val = reaching(fn, expr.id, at)
        if val is None or isinstance(val, Opaque):
            raise AnalysisError(f"combinator `{expr.id}` cannot be resolved")
        return resolve_combinator(prog, mod, fn, val, val if hasattr(val, "lineno") else at)[:3] + (expr.id,)
    if isinstance(expr, ast.Lambda):
        params = [a.arg for a in expr.args.args]
        value, info = _candidate_parts(expr.body)
        return tuple(params[:2]), inline(fn, value, at), info, "lambda"
    if isinstance(expr, ast.Call):
        res = resolve_callee(prog, mod, expr.func)
        if (res is None or not isinstance(res[1], FuncNode)) and isinstance(expr.func, ast.Name):
            # a factory defined locally, in the function that uses it
            local = [sub for sub in walk_no_nested(fn) if isinstance(sub, FuncNode) and sub.name == expr.func.id]
            if len(local) == 1:
                res = (mod, local[0])
        if res and isinstance(res[1], FuncNode):
            cmod, factory = res
            rets = [n for n in walk_no_nested(factory) if isinstance(n, ast.Return) and n.value is not None]
            if len(rets) == 1 and isinstance(rets[0].value, ast.Name):
                # `def factory(c): def comb(l, r): return Candidate(...); return comb`
                inner = [sub for sub in walk_no_nested(factory) if isinstance(sub, FuncNode) and sub.name == rets[0].value.id]
                if len(inner) == 1:
                    irets = [n for n in walk_no_nested(inner[0]) if isinstance(n, ast.Return) and n.value is not None]
                    if len(irets) == 1:
                        lam_args = inner[0].args
                        rets = [ast.Return(value=ast.Lambda(args=lam_args, body=irets[0].value))]
            if len(rets) == 1 and isinstance(rets[0].value, ast.Lambda):
                lam = rets[0].value
                fparams = func_params(factory)
                amap: Dict[str, ast.AST] = {}
                for idx, arg in enumerate(expr.args):
                    if idx < len(fparams):
                        amap[fparams[idx]] = arg
                for kw in expr.keywords:
                    if kw.arg:
                        amap[kw.arg] = kw.value
                value, info = _candidate_parts(lam.body)
                value = _substitute(value, amap)
                value = inline(fn, value, at)
                return tuple(a.arg for a in lam.args.args)[:2], value, info, factory.name
    if isinstance(expr, ast.Subscript) and isinstance(expr.value, ast.Name):
        # `combs[K]` with `combs = {k: factory(c[k]) for k in (...)}` (a call evaluated once per key - a lambda
        # written in the comprehension itself would read the LAST key and is not resolved here) or a dict literal
        table = reaching(fn, expr.value.id, at)
        if isinstance(table, ast.DictComp) and len(table.generators) == 1 and isinstance(table.generators[0].target, ast.Name) and not table.generators[0].ifs:
            gen = table.generators[0]
            keys = gen.iter.elts if isinstance(gen.iter, (ast.Tuple, ast.List, ast.Set)) else None
            if isinstance(table.key, ast.Name) and table.key.id == gen.target.id and isinstance(table.value, ast.Call) and keys is not None and any(ast.dump(k) == ast.dump(expr.slice) for k in keys):
                inst = _substitute(table.value, {gen.target.id: expr.slice})
                return resolve_combinator(prog, mod, fn, inst, table)[:3] + (short(expr, 40),)
        if isinstance(table, ast.Dict):
            for k, v in zip(table.keys, table.values):
                if k is not None and ast.dump(k) == ast.dump(expr.slice):
                    return resolve_combinator(prog, mod, fn, v, table)[:3] + (short(expr, 40),)
    raise AnalysisError(f"combinator `{short(expr)}` has a shape that is not recognised")


def _substitute(expr: ast.AST, amap: Dict[str, ast.AST]) -> ast.AST:
    class Sub(ast.NodeTransformer):
        def visit_Name(self, node):
            if node.id in amap:
                return copy.deepcopy(amap[node.id])
            return node

    return Sub().visit(copy.deepcopy(expr))


def _candidate_parts(expr: ast.AST) -> Tuple[ast.AST, Optional[ast.AST]]:
    if isinstance(expr, ast.Call) and dotted(expr.func) == "Candidate":
        value = kwarg(expr, "value", 0)
        info = kwarg(expr, "info", 1)
        if value is None:
            raise AnalysisError("Candidate without a value")
        return value, info
    raise AnalysisError(f"`{short(expr)}` is not a Candidate(...) construction")


def _entry_ref(fn: ast.AST, expr: ast.AST, at: ast.AST) -> Tuple:
    """Canonical reference of an entry expression used with .update / .combine."""
    if isinstance(expr, ast.Name):
        return ("local", expr.id)
    if isinstance(expr, ast.Attribute):
        fieldname = expr.attr
        base = expr.value
        idx: List[object] = []
        while isinstance(base, ast.Subscript):
            sl = base.slice
            if isinstance(sl, ast.Constant):
                idx.append(sl.value)
            else:
                ev = _enum_value(fn, sl, at)
                idx.append(ev if ev else ("var", dotted(sl) or short(sl)))
            base = base.value
        idx.reverse()
        if isinstance(base, ast.Name):
            return ("sub", base.id, tuple(idx), fieldname)
    raise AnalysisError(f"entry expression `{short(expr)}` not recognised")


def find_recurrences(prog: Program) -> List[Recurrence]:
    if "recurrences" not in prog.memo:
        prog.memo["recurrences"] = _find_recurrences(prog)
    return prog.memo["recurrences"]


def _find_recurrences(prog: Program) -> List[Recurrence]:
    out = []
    for modname in (
        "compute.reconciliation",
        "compute.super_reconciliation",
        "compute.unordered_super_reconciliation",
    ):
        mod = prog.module(modname)
        for qual, fn in prog.defs(modname).items():
            if not isinstance(fn, FuncNode) or "." in qual:
                continue
            comb_calls = [
                c
                for c in calls_in(fn, nested=False)
                if isinstance(c.func, ast.Attribute) and c.func.attr == "combine" and len(c.args) == 2
            ]
            if comb_calls:
                out.append(_extract(prog, mod, modname, fn, comb_calls))
    return out


def _root_names(fn: ast.AST) -> Tuple[str, str]:
    """(species parameter, object parameter) of a recurrence function, by role: the object node is the
    parameter whose `.children` index the table rows (`table[<p>.children[k]]...` or names unpacked from
    `<p>.children` used that way); the species is the parameter handed to `distance(<q>, ...)` /
    `is_ancestor_of(<q>, ...)` or whose `.children` give the species subtrees."""
    params = func_params(fn)
    obj_votes: Dict[str, int] = {}
    sp_votes: Dict[str, int] = {}
    # names unpacked from <param>.children
    unpacked: Dict[str, str] = {}
    for node in ast.walk(fn):
        val = node.value if isinstance(node, ast.Assign) else None
        if isinstance(val, ast.Subscript):
            val = val.value  # <p>.children[k]
        if isinstance(node, ast.Assign) and isinstance(val, ast.Attribute) and val.attr == "children" and dotted(val.value) in params:
            for tgt in node.targets:
                for nm in ast.walk(tgt):
                    if isinstance(nm, ast.Name) and isinstance(nm.ctx, ast.Store):
                        unpacked[nm.id] = dotted(val.value)
    for node in ast.walk(fn):
        if isinstance(node, ast.Subscript) and isinstance(node.value, ast.Name) and node.value.id in params:
            key = node.slice
            if isinstance(key, ast.Subscript) and isinstance(key.value, ast.Attribute) and key.value.attr == "children" and dotted(key.value.value) in params:
                obj_votes[dotted(key.value.value)] = obj_votes.get(dotted(key.value.value), 0) + 1
            elif isinstance(key, ast.Name) and key.id in unpacked:
                obj_votes[unpacked[key.id]] = obj_votes.get(unpacked[key.id], 0) + 1
        if isinstance(node, ast.Call) and isinstance(node.func, ast.Attribute) and node.func.attr in ("distance", "is_ancestor_of") and node.args:
            for a in node.args[:2]:
                nm = dotted(a)
                if nm in params:
                    sp_votes[nm] = sp_votes.get(nm, 0) + 1
    obj = max(obj_votes, key=obj_votes.get) if obj_votes else None
    species = max((k for k in sp_votes if k != obj), key=lambda k: sp_votes[k], default=None)
    if species is None or obj is None:
        # spelling of the pinned tree as a last resort
        species = next((p for p in params if p in ("root_species",)), None)
        obj = next((p for p in params if p in ("root_object", "root_node")), None)
    if species is None or obj is None:
        raise AnalysisError(f"{fn.name}: root species / root object parameters not recognised")
    return species, obj


def _extract(prog: Program, mod: Module, modname: str, fn: ast.AST, comb_calls: List[ast.Call]) -> Recurrence:
    root_species, root_object = _root_names(fn)
    combines: List[Combine] = []
    for call in comb_calls:
        recv = _entry_ref(fn, call.func.value, call)  # type: ignore[union-attr]
        arg = _entry_ref(fn, call.args[0], call)
        params, value, info, label = resolve_combinator(prog, mod, fn, call.args[1], call)
        combines.append(Combine(call, recv, arg, call.args[1], value, info, params, label))
    classes: Dict[Tuple, EntryClass] = {}
    # update sites of entries
    for call in calls_in(fn, nested=False):
        if not (isinstance(call.func, ast.Attribute) and call.func.attr == "update"):
            continue
        try:
            ref = _entry_ref(fn, call.func.value, call)
        except AnalysisError:
            continue
        if ref[0] == "local" and not _is_local_entry(fn, ref[1]):
            continue
        if ref[0] == "sub" and not ref[2]:
            continue
        cands: List[ast.AST] = []
        for arg in call.args:
            if isinstance(arg, ast.Starred):
                inner = arg.value
                if isinstance(inner, ast.Name):
                    val = reaching(fn, inner.id, call)
                    if isinstance(val, (ast.Tuple, ast.List)):
                        cands.extend(val.elts)
                        continue
                if isinstance(inner, (ast.Tuple, ast.List)):
                    cands.extend(inner.elts)
                    continue
                if isinstance(inner, ast.Call) and isinstance(inner.func, ast.Attribute) and inner.func.attr == "combine":
                    cands = []
                    break
                raise AnalysisError(f"{fn.name}: starred update argument `{short(arg)}` not recognised")
            else:
                cands.append(arg)
        resolved = []
        for cand in cands:
            if isinstance(cand, ast.Name):
                val = reaching(fn, cand.id, call)
                if isinstance(val, ast.Call) and dotted(val.func) == "Candidate":
                    cand = val
            elif (
                isinstance(cand, ast.Subscript)
                and isinstance(cand.value, ast.Name)
                and isinstance(cand.slice, ast.Constant)
                and isinstance(cand.slice.value, int)
            ):
                val = reaching(fn, cand.value.id, call)
                if isinstance(val, (ast.Tuple, ast.List)) and -len(val.elts) <= cand.slice.value < len(val.elts):
                    cand = val.elts[cand.slice.value]
            resolved.append(cand)
        cands = [_inline_candidate_helper(fn, c) for c in resolved]
        for cand in cands:
            if not (isinstance(cand, ast.Call) and dotted(cand.func) == "Candidate"):
                raise AnalysisError(f"{fn.name}: `{short(cand)}` offered to an entry is not a Candidate(...)")
            value, info = _candidate_parts(cand)
            at = cand if hasattr(cand, "lineno") and _inside(fn, cand) else call
            site_guards = list(guards(fn, call))
            if at is not call:
                seen_g = {(ast.dump(g), p) for g, p in site_guards}
                site_guards += [(g, p) for g, p in guards(fn, at) if (ast.dump(g), p) not in seen_g]
            site = CandidateSite(
                node=cand,
                value=inline(fn, value, at),
                info=inline(fn, info, at) if info is not None else None,
                guards=site_guards,
                loops=loops_around(fn, call),
            )
            key = _class_key(ref)
            if key not in classes:
                classes[key] = EntryClass(ref=key, label=_class_label(key))
            classes[key].sites.append(site)
    model = {
        "compute.reconciliation": "plain",
        "compute.super_reconciliation": "ordered",
        "compute.unordered_super_reconciliation": "unordered",
    }[modname]
    pk: List[Optional[str]] = [None]
    if any(len(k) > 2 and k[2] for k in classes if k[0] == "sub"):
        pk = sorted({k[2] for k in classes if k[0] == "sub" and k[2]})  # type: ignore[assignment]
    rec = Recurrence(mod, modname, fn, combines, classes, model, pk, root_species, root_object)
    _annotate_sites(rec)
    return rec


def _inline_candidate_helper(fn: ast.AST, cand: ast.AST) -> ast.AST:
    """`helper(a, b)` where `helper` is a local def whose single return is a Candidate(...): the construction with
    the helper's parameters replaced by the arguments and its local assignments expanded."""
    if not (isinstance(cand, ast.Call) and isinstance(cand.func, ast.Name) and dotted(cand.func) != "Candidate"):
        return cand
    local = [sub for sub in walk_no_nested(fn) if isinstance(sub, FuncNode) and sub.name == cand.func.id]
    if len(local) != 1:
        return cand
    helper = local[0]
    rets = [n for n in walk_no_nested(helper) if isinstance(n, ast.Return) and n.value is not None]
    if len(rets) != 1 or not (isinstance(rets[0].value, ast.Call) and dotted(rets[0].value.func) == "Candidate"):
        return cand
    if any(isinstance(n, (ast.If, ast.For, ast.While)) for n in walk_no_nested(helper)):
        return cand
    body = inline(helper, rets[0].value, rets[0])
    params = func_params(helper)
    amap: Dict[str, ast.AST] = {}
    for idx, arg in enumerate(cand.args):
        if idx < len(params):
            amap[params[idx]] = arg
    for kw in cand.keywords:
        if kw.arg:
            amap[kw.arg] = kw.value
    out = _substitute(body, amap)
    for n in ast.walk(out):
        ast.copy_location(n, cand) if not hasattr(n, "lineno") else None
    return ast.copy_location(out, cand)


def _inside(fn: ast.AST, node: ast.AST) -> bool:
    return any(sub is node for sub in ast.walk(fn))


def _is_local_entry(fn: ast.AST, name: str) -> bool:
    for sub in walk_no_nested(fn):
        if isinstance(sub, ast.Assign) and any(isinstance(t, ast.Name) and t.id == name for t in sub.targets):
            if isinstance(sub.value, ast.Call) and isinstance(sub.value.func, ast.Attribute) and sub.value.func.attr == "entry":
                return True
            if isinstance(sub.value, ast.Call) and dotted(sub.value.func) == "Entry":
                return True
    return False


def _class_key(ref: Tuple) -> Tuple:
    """Class of an entry, abstracting the child index:
    ('local', name) | ('sub', field, parent_kind or None)"""
    if ref[0] == "local":
        return ("local", ref[1])
    _tag, _base, idx, fieldname = ref
    parent_kind = None
    for item in idx[1:]:
        if isinstance(item, str):
            parent_kind = item
    return ("sub", fieldname, parent_kind)


def _class_label(key: Tuple) -> str:
    if key[0] == "local":
        return key[1]
    return key[1] + (f"[{key[2]}]" if key[2] else "")


class OptHook:
    """Role names for atoms of an optimiser candidate (relative to one child)."""

    def __init__(self, rec_fn: ast.AST, root_species: str, root_object: str, at: ast.AST):
        self.fn = rec_fn
        self.root_species = root_species
        self.root_object = root_object
        self.at = at
        self.children_seen: Set[object] = set()
        self.s_keys: List[Tuple[str, ...]] = []
        self.d_keys: List[str] = []
        self.l_keys: List[Tuple[str, str]] = []
        self.bad_d: List[str] = []
        self.norm = Normaliser()

    def child_of(self, expr: ast.AST) -> Optional[object]:
        """0 / 1 / ('var', name) if expr denotes a child of the root object."""
        if isinstance(expr, ast.Subscript) and isinstance(expr.value, ast.Attribute) and expr.value.attr == "children":
            if dotted(expr.value.value) == self.root_object:
                if isinstance(expr.slice, ast.Constant) and expr.slice.value in (0, 1):
                    return expr.slice.value
                name = dotted(expr.slice)
                if name:
                    return ("var", name)
        return None

    def __call__(self, node: ast.AST) -> Optional[str]:
        key = cost_key(node)
        if key:
            return f"c[{key}]"
        if isinstance(node, ast.Call):
            f = node.func
            # table[child][k1]...[kn].value()
            if isinstance(f, ast.Attribute) and f.attr == "value" and not node.args:
                keys = []
                base = f.value
                while isinstance(base, ast.Subscript):
                    keys.append(base.slice)
                    base = base.value
                keys.reverse()
                if keys:
                    ch = self.child_of(keys[0])
                    if ch is not None:
                        self.children_seen.add(ch if not isinstance(ch, tuple) else "i")
                        texts = tuple(self.norm.text(k, False) for k in keys[1:])
                        self.s_keys.append(texts)
                        return "S"
            if isinstance(f, ast.Attribute) and f.attr == "distance" and len(node.args) == 2:
                a, b = (self.norm.text(x, False) for x in node.args)
                if a == self.root_species:
                    self.d_keys.append(b)
                    return "D"
                if b == self.root_species:
                    self.d_keys.append(a)
                    return "D"
                self.bad_d.append(f"distance({a}, {b})")
                return f"D?({a},{b})"
            if dotted(f) == "subseq_segment_dist" and len(node.args) + len(node.keywords) == 3:
                edges = third_arg(node)
                flag = const_bool(edges) if edges is not None else None
                a = self.norm.text(node.args[0], False) if node.args else "?"
                b = self.norm.text(node.args[1], False) if len(node.args) > 1 else "?"
                self.l_keys.append((a, b))
                if flag is not None:
                    return "LT" if flag else "LF"
        if isinstance(node, ast.IfExp):
            test = node.test
            if isinstance(test, ast.Compare) and len(test.ops) == 1:
                opname = type(test.ops[0]).__name__
                left = self.norm.text(test.left, False)
                right = self.norm.text(test.comparators[0], False)
                body = Normaliser(self).poly(node.body)
                other = Normaliser(self).poly(node.orelse)
                rel = self._subset_relation(test)
                return f"Phi[{rel or (left + ' ' + opname + ' ' + right)}]({body};{other})"
        return None

    def _subset_relation(self, test: ast.Compare) -> Optional[str]:
        """`sets[root_object] <= sets[<child>]` -> 'parent<=child'"""
        if not isinstance(test.ops[0], ast.LtE):
            return None
        left, right = test.left, test.comparators[0]
        if not (isinstance(left, ast.Subscript) and isinstance(right, ast.Subscript)):
            return None
        if dotted(left.value) != dotted(right.value):
            return None
        if dotted(left.slice) == self.root_object and self.child_of(right.slice) is not None:
            return "parent<=child"
        return None


def _annotate_sites(rec: Recurrence) -> None:
    for cls in rec.classes.values():
        for site in cls.sites:
            hook = OptHook(rec.fn, rec.root_species, rec.root_object, site.node)
            site.poly = Normaliser(hook).poly(site.value)
            kids = hook.children_seen
            if len(kids) == 1:
                site.child = next(iter(kids))
            elif len(kids) > 1:
                site.child = "mixed"
            site.s_keys = hook.s_keys[0] if hook.s_keys else ()
            site.__dict__["hook"] = hook
            # USPFS: kind of the child's row
            if site.s_keys:
                for key in site.s_keys:
                    if key in ("SyntenyAssignment.LCA", "SyntenyAssignment.INHERIT"):
                        site.child_kind = key.split(".")[1]


def suffix_child(poly: Poly, role: str) -> Poly:
    """Rename the child-relative atoms S, D, LT, LF (and Phi terms) with a role suffix."""

    def ren(key: str) -> str:
        if key in ("S", "D", "LT", "LF"):
            return f"{key}.{role}"
        if key.startswith("Phi["):
            return key.replace("Phi[parent<=child]", f"Phi[sub.{role}]")
        return key

    return poly.rename(ren)
