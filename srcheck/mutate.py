"""In-memory mutation self-test of the rules (thorough tier, DESIGN.md section 6).

Every variant is derived from the *current* source of /repo by a small edit,
compiled (to make sure it is a program) and analysed through the override
map of :class:`Program`; nothing is written to disk and nothing is executed.

* a MUTANT breaks a property: at least one of the listed rules must report a
  finding that the unchanged tree does not have;
* a TWIN preserves behaviour: no rule of the property may report a finding
  or an analysis error.

A variant whose edit does not apply (the repository moved on) is counted as
inapplicable.  Gaps are reported (`SELFTEST-GAP`) and recorded in the
evidence; they never change the verdict on the property itself.
"""
from __future__ import annotations

import os
import re
from concurrent.futures import ProcessPoolExecutor
from dataclasses import dataclass, field
from typing import Callable, Dict, List, Optional, Sequence, Tuple

from .core import AnalysisError, Program

REC = "compute/reconciliation.py"
EXH = "compute/exhaustive.py"
SPFS = "compute/super_reconciliation.py"
USPFS = "compute/unordered_super_reconciliation.py"
DP = "utils/dynamic_programming.py"
MODEL = "model/reconciliation.py"
TMAP = "model/tree_mapping.py"
SYN = "model/synteny.py"
CLI = "cli/reconcile.py"
TOPO = "utils/toposort.py"
DSET = "utils/disjoint_set.py"
TREES = "utils/trees.py"
LAYOUT = "render/layout.py"
TIKZ = "render/tikz.py"
GEOM = "utils/geometry.py"
TEX = "utils/tex.py"


@dataclass
class Variant:
    name: str
    relpath: str
    edits: List[Tuple[str, str]]  # (old, new) applied in order, each must match exactly once
    expect: Tuple[str, ...] = ()  # rules of which at least one must fire (empty for twins)
    twin: bool = False
    regex: bool = False
    note: str = ""
    every: bool = False  # replace every occurrence (whole-word regex) instead of exactly one

    def apply(self, src: str) -> Optional[str]:
        out = src
        for old, new in self.edits:
            if self.every:
                pattern = (r"\b" if re.match(r"\w", old) else "") + re.escape(old) + (r"\b" if re.search(r"\w$", old) else "")
                if not re.search(pattern, out):
                    return None
                out = re.sub(pattern, lambda _m, new=new: new, out)
                continue
            if self.regex:
                if len(re.findall(old, out, flags=re.S)) != 1:
                    return None
                out = re.sub(old, lambda _m, new=new: new, out, count=1, flags=re.S)
            else:
                if out.count(old) != 1:
                    return None
                out = out.replace(old, new)
        return out if out != src else None


def M(name, relpath, old, new, *expect, note=""):
    return Variant(name, relpath, [(old, new)], tuple(expect), note=note)


def T(name, relpath, old, new, note=""):
    return Variant(name, relpath, [(old, new)], (), twin=True, note=note)


OLD_COLOR_BLOCK = '''    last_color = None
    last_color_node = None

    for root_gene in gene_tree.traverse("preorder"):
        if hasattr(root_gene, "color"):
            last_color = root_gene.color
            last_color_node = root_gene
        elif last_color_node is not None:
            if last_color_node in root_gene.iter_ancestors():
                root_gene.add_feature("color", last_color)
            else:
                last_color = None
                last_color_node = None
'''
NEW_COLOR_BLOCK = '''    for root_gene in gene_tree.traverse("preorder"):
        if not hasattr(root_gene, "color") and hasattr(root_gene.up, "color"):
            root_gene.add_feature("color", root_gene.up.color)
'''

VARIANTS: List[Variant] = [
    # ---------------- THL -------------------------------------------------
    M("thl-drop-spe-cost", REC, "spe_cost + left.value + right.value", "left.value + right.value", "COSTKEYS", "EVENT-SIG"),
    M("thl-loss-after-prune", REC, "dup_cost + left.value + right.value,",
      "dup_cost + left.value + right.value + loss_cost * species_lca.distance(root_species, left.info),", "PRUNE"),
    M("thl-off-by-one", REC, "(species_lca.distance(root_species, left_child) - 1)",
      "species_lca.distance(root_species, left_child)", "EVENT-SIG"),
    M("thl-drop-conserv-loss", REC, "table[left_node][other_species].value() + conserv_loss",
      "table[left_node][other_species].value()", "EVENT-SIG", "MIRROR"),
    M("thl-swap-combine", REC, "*min_ltl.combine(min_rtr, spe_combinator)", "*min_rtr.combine(min_ltl, spe_combinator)",
      "COMBINE-ORIENT"),
    M("thl-drop-mirror", REC, "        *min_ltr.combine(min_rtl, spe_combinator),\n", "", "MIRROR", "CLASS-DOMAIN"),
    M("thl-separate-else", REC, "elif not species_lca.is_ancestor_of(other_species, root_species):", "else:", "CLASS-DOMAIN"),
    M("thl-info-swapped", REC, "spe_cost + left.value + right.value,\n            MappingInfo(left.info, right.info),",
      "spe_cost + left.value + right.value,\n            MappingInfo(right.info, left.info),", "COMBINE-ORIENT"),
    M("thl-decoder-guard", REC, "if root_object.is_leaf() and not table[root_object][root_species].is_infinite():",
      "if not table[root_object][root_species].infos():", "DECODE-GUARD"),
    M("thl-decode-drop-right", REC, "                    **map_right.object_species,\n                },\n            )\n\n\ndef reconcile_thl",
      "                },\n            )\n\n\ndef reconcile_thl", "DECODE-COMPLETE"),
    M("thl-decode-one-tag", REC, "for info in table[root_object][root_species].infos():",
      "for info in [table[root_object][root_species].info()]:", "DECODE-PRODUCT"),
    M("thl-policy-const", REC, "results: Entry[int, ReconciliationOutput] = Entry(MergePolicy.MIN, policy)",
      "results: Entry[int, ReconciliationOutput] = Entry(MergePolicy.MIN, RetentionPolicy.ANY)", "POLICY-FLOW"),
    M("thl-preorder-fill", REC, 'for root_node in rec_input.object_tree.traverse("postorder"):',
      'for root_node in rec_input.object_tree.traverse("preorder"):', "TRAVERSAL"),
    M("thl-leaf-cost", REC, "table[root_node][root_species] = Candidate(0)", "table[root_node][root_species] = Candidate(1)", "LEAF-ANCHOR"),
    M("thl-result-in-loop", REC,
      "    results: Entry[int, ReconciliationOutput] = Entry(MergePolicy.MIN, policy)\n\n    for root_species in rec_input.species_lca.tree.traverse():\n",
      "    for root_species in rec_input.species_lca.tree.traverse():\n        results: Entry[int, ReconciliationOutput] = Entry(MergePolicy.MIN, policy)\n",
      "RESULT-SCOPE"),
    M("thl-wrong-row", REC, "table[right_node][left_child].value() + left_loss", "table[left_node][left_child].value() + left_loss",
      "EVENT-SIG"),
    M("thl-decode-sides", REC, "right_object,\n                info.right,", "right_object,\n                info.left,", "DECODE-COMPLETE"),
    M("exh-rank-const", EXH, "results.update(Candidate(output.cost(), output))", "results.update(Candidate(0, output))", "RESULT-SCOPE"),
    M("exh-drop-left", EXH, "                    node: parent_species,\n                    **map_left.object_species,",
      "                    node: parent_species,", "DECODE-COMPLETE"),
    M("lca-one-child", REC, "rec_input.species_lca(rec[left], rec[right])", "rec_input.species_lca(rec[left], rec[left])", "LCA-PROPAGATE"),
    M("lca-no-oracle", REC, "rec[node] = rec_input.species_lca(rec[left], rec[right])", "rec[node] = rec[left]", "LCA-PROPAGATE"),
    M("lca-preorder", REC, 'for node in rec_input.object_tree.traverse("postorder"):\n        if node.is_leaf():\n            species',
      'for node in rec_input.object_tree.traverse("preorder"):\n        if node.is_leaf():\n            species', "TRAVERSAL"),
    T("twin-lca-star", REC, "            left, right = node.children\n            rec[node] = rec_input.species_lca(rec[left], rec[right])",
      "            rec[node] = rec_input.species_lca(*(rec[child] for child in node.children))"),
    # ---------------- SPFS ------------------------------------------------
    M("spfs-sentinel-scaled", SPFS,
      "                conserv_segments = subseq_segment_dist(\n                    child_synteny,\n                    root_synteny,\n                    edges=True,\n                )\n\n                if conserv_segments < 0:",
      "                conserv_segments = subseq_segment_dist(\n                    child_synteny,\n                    root_synteny,\n                    edges=True,\n                ) * sloss_cost\n\n                if conserv_segments < 0:",
      "SENTINEL"),
    M("spfs-sentinel-dropped", SPFS, "                if conserv_segments < 0:\n                    # Not a subsequence of the parent synteny\n                    continue\n", "", "SENTINEL"),
    M("spfs-edges-flip", SPFS, "subseq_segment_dist(child_synteny, root_synteny, edges=False)",
      "subseq_segment_dist(child_synteny, root_synteny, edges=True)", "EVENT-SIG"),
    M("spfs-drop-floss", SPFS, "species_dist = above_species_dist - floss_cost", "species_dist = above_species_dist", "EVENT-SIG"),
    M("spfs-wrong-unit", SPFS, "dup_comb = _make_event_combinator(costs[NodeEvent.DUPLICATION])",
      "dup_comb = _make_event_combinator(costs[NodeEvent.SPECIATION])", "EVENT-SIG", "CLASS-DOMAIN", "COSTKEYS"),
    M("spfs-drop-combine", SPFS, "        *subprobs[0].segment.combine(subprobs[1].conserved, dup_comb),\n", "", "MIRROR", "SIBLING-PAIRING"),
    M("spfs-swap-receiver", SPFS, "*subprobs[0].conserved.combine(subprobs[1].separate, hgt_comb),",
      "*subprobs[1].separate.combine(subprobs[0].conserved, hgt_comb),", "COMBINE-ORIENT"),
    M("spfs-separate-else", SPFS, "elif not species_lca.is_ancestor_of(desc_species, root_species):", "else:", "CLASS-DOMAIN"),
    M("spfs-info-mismatch", SPFS, "assignment = ObjectAssignment(desc_species, child_synteny)",
      "assignment = ObjectAssignment(root_species, child_synteny)", "INFO-KEY"),
    M("spfs-ext-leaves", SPFS, 'allowed_species=lambda species, _: species.traverse("postorder"),',
      "allowed_species=lambda species, _: species.iter_leaves(),", "BASE-EXT-SHARE"),
    M("spfs-no-label", SPFS, "        srec_input_bin.label_internal()\n", "", "LABEL-PASS"),
    M("spfs-prec-last", SPFS, "        if leaf_synteny[-1] not in prec:\n            prec[leaf_synteny[-1]] = set()\n", "", "GRAPH-KEYS"),
    M("spfs-prec-reversed", SPFS, "prec[gene_1].add(gene_2)", "prec[gene_2].add(gene_1)", "GRAPH-KEYS"),
    M("spfs-decode-drop-syn", SPFS, "                    **map_right.syntenies,\n", "", "DECODE-COMPLETE"),
    M("spfs-decode-sides", SPFS, "right_object,\n                info.right.species,", "right_object,\n                info.left.species,", "DECODE-COMPLETE"),
    M("spfs-leaf-key", SPFS, "table[root_object][species][synteny] = Candidate(0)",
      "table[root_object][species][subseq_complete(root_ordering)] = Candidate(0)", "LEAF-ANCHOR"),
    M("spfs-table-policy", SPFS, "        MergePolicy.MIN,\n        retention_policy,\n    )\n\n    for root_object in tqdm(",
      "        MergePolicy.MIN,\n        RetentionPolicy.ANY,\n    )\n\n    for root_object in tqdm(", "POLICY-FLOW"),
    M("spfs-left-free-ends", SPFS,
      "                        if is_left_desc:\n                            subprobs[child_index].left.update(\n                                Candidate(\n                                    value=species_dist + sub_cost + conserv_dist,",
      "                        if is_left_desc:\n                            subprobs[child_index].left.update(\n                                Candidate(\n                                    value=species_dist + sub_cost + segment_dist,",
      "EVENT-SIG"),
    M("spfs-fill-preorder", SPFS, 'srec_input.object_tree.traverse("postorder"),\n        desc="Table entries",',
      'srec_input.object_tree.traverse("preorder"),\n        desc="Table entries",', "TRAVERSAL"),
    M("spfs-result-return-early", SPFS, "                    )\n                )\n\n    return results.infos()\n\n\ndef sreconcile_base_spfs",
      "                    )\n                )\n\n        return results.infos()\n\n\ndef sreconcile_base_spfs", "RESULT-SCOPE"),
    # ---------------- USPFS -----------------------------------------------
    M("uspfs-inplace", USPFS, "ancestor_synteny = ancestor_synteny | gain_sets[root_object]", "ancestor_synteny |= gain_sets[root_object]", "READONLY-DECODE"),
    M("uspfs-charge-drop", USPFS,
      "                subprobs[child_index][inh].conserved.update(\n                    Candidate(\n                        value=above_species_dist + lca_cost + sloss_cost,",
      "                subprobs[child_index][inh].conserved.update(\n                    Candidate(\n                        value=above_species_dist + lca_cost,",
      "EVENT-SIG"),
    M("uspfs-subset-flip", USPFS, "if lca_sets[root_object] <= lca_sets[child_object]:", "if lca_sets[root_object] >= lca_sets[child_object]:", "EVENT-SIG"),
    M("uspfs-info-kind", USPFS, "inh_assign = ObjectAssignment(desc_species, inh)", "inh_assign = ObjectAssignment(desc_species, lca)", "INFO-KEY"),
    M("uspfs-lcasets-preorder", USPFS, 'for object_node in srec_input.object_tree.traverse("postorder"):',
      'for object_node in srec_input.object_tree.traverse("preorder"):', "TRAVERSAL"),
    M("uspfs-segment-charged", USPFS,
      "                subprobs[child_index][inh].segment.update(\n                    Candidate(\n                        value=above_species_dist + lca_cost,",
      "                subprobs[child_index][inh].segment.update(\n                    Candidate(\n                        value=above_species_dist + lca_cost + sloss_cost,",
      "EVENT-SIG"),
    M("uspfs-base-all", USPFS, "allowed_species=lambda _, obj: [rec_output.object_species[obj]],",
      "allowed_species=lambda species, _: species.traverse(),", "BASE-EXT-SHARE"),
    M("uspfs-leaf-guard", USPFS, "root_object.is_leaf()\n        and not table[root_object][root_species][root_kind].is_infinite()",
      "root_object.is_leaf()", "DECODE-GUARD"),
    M("uspfs-species-dist", USPFS, "species_dist = above_species_dist - floss_cost", "species_dist = above_species_dist - 2 * floss_cost", "EVENT-SIG"),
    M("uspfs-right-test", USPFS, "elif species_lca.is_ancestor_of(right_species, desc_species):\n                        subprobs[child_index][inh].right",
      "else:\n                        subprobs[child_index][inh].right", "CLASS-DOMAIN"),
    # ---------------- DP entry --------------------------------------------
    M("dp-stale-tags", DP, "                    self._infos = {info}\n                else:\n                    self._infos = set()\n",
      "                    self._infos = {info}\n", "UPDATE-PAIRING"),
    M("dp-any-grows", DP, "if info and (is_all or (is_any and not self._infos)):", "if info and (is_all or is_any):", "RETENTION-GUARDS"),
    M("dp-default-sign", DP, "self._value = inf if value == MergePolicy.MIN else -inf", "self._value = -inf if value == MergePolicy.MIN else inf", "POLARITY"),
    M("dp-non-strict", DP, "(is_min and self._value > value)", "(is_min and self._value >= value)", "POLARITY"),
    M("dp-proxy-deref", DP, "        real = self._get_real()\n\n        if real is None:\n            return set()\n\n        return real.infos()",
      "        real = self._get_real()\n        return real.infos()", "PROXY-NONE"),
    M("dp-proxy-default", DP, "return inf if self._parent.merge_policy == MergePolicy.MIN else -inf", "return 0", "POLARITY"),
    M("dp-combine-policies", DP, "result = Entry(self._merge_policy, self._retention_policy)", "result = Entry(MergePolicy.MIN, RetentionPolicy.ALL)", "COMBINE-PRODUCT"),
    M("dp-combine-tags-swapped", DP, "Candidate(self._value, ours),\n                    Candidate(other.value(), theirs),",
      "Candidate(self._value, theirs),\n                    Candidate(other.value(), ours),", "COMBINE-PRODUCT"),
    M("dp-none-keeps", DP, "is_all = self._retention_policy == RetentionPolicy.ALL", "is_all = self._retention_policy != RetentionPolicy.ANY", "RETENTION-GUARDS"),
    M("dp-all-first-only", DP, "if info and (is_all or (is_any and not self._infos)):", "if info and ((is_all or is_any) and not self._infos):", "RETENTION-GUARDS"),
    M("dp-proxy-len", DP, "        if real is None:\n            return 0\n", "        if real is None:\n            return 1\n", "PROXY-NONE"),
    # ---------------- evaluator / model -----------------------------------
    M("eval-spe-minus-one", MODEL, "(left_dist + right_dist - 2)", "(left_dist + right_dist - 1)", "MODEL-TABLE", "EVENT-SIG"),
    M("eval-hgt-other-child", MODEL, "            left_dist\n            if species_lca.is_ancestor_of(rec[node], rec[left_node])\n            else right_dist",
      "            right_dist\n            if species_lca.is_ancestor_of(rec[node], rec[left_node])\n            else left_dist", "MODEL-TABLE"),
    M("eval-dup-no-min", MODEL, "total_cost += min(left_cost, right_cost)", "total_cost += left_cost", "MODEL-TABLE", "LABEL-SIBLINGS"),
    M("eval-unordered-superset", MODEL, "0 if node_set <= set(self.syntenies[left_node]) else sloss_cost",
      "0 if node_set >= set(self.syntenies[left_node]) else sloss_cost", "MODEL-TABLE"),
    M("eval-spe-one-side", MODEL, "total_cost += left_cost + right_cost", "total_cost += left_cost", "MODEL-TABLE", "LABEL-SIBLINGS"),
    M("eval-keep-left-flipped", MODEL,
      "subseq_segment_dist(left_mask, sub_mask, keep_left)\n                        + subseq_segment_dist(right_mask, sub_mask, not keep_left)",
      "subseq_segment_dist(left_mask, sub_mask, not keep_left)\n                        + subseq_segment_dist(right_mask, sub_mask, keep_left)",
      "MODEL-TABLE", "LABEL-SIBLINGS"),
    M("eval-dup-floss-half", MODEL, "+ costs[EdgeEvent.FULL_LOSS] * (left_dist + right_dist)\n", "+ costs[EdgeEvent.FULL_LOSS] * left_dist\n", "MODEL-TABLE", "EVENT-SIG"),
    M("eval-hgt-unit", MODEL, "            costs[NodeEvent.HORIZONTAL_TRANSFER]\n            + left_cost", "            costs[NodeEvent.DUPLICATION]\n            + left_cost", "MODEL-TABLE"),
    M("eval-invalid-zero", MODEL, "if event == NodeEvent.INVALID:\n            return inf", "if event == NodeEvent.INVALID:\n            return 0", "EVENT-EXHAUSTIVE"),
    M("eval-masks-postorder", MODEL,
      '        for node in tree.traverse("preorder"):\n            if not node.is_leaf():\n                event = self.node_event(node)\n                sub_mask',
      '        for node in tree.traverse("postorder"):\n            if not node.is_leaf():\n                event = self.node_event(node)\n                sub_mask', "TRAVERSAL"),
    M("ser-drop-ordered", MODEL, '            "ordered": self.ordered,\n', "", "DICT-KEYS", "FIELDS-SERIALISED"),
    M("ser-no-color", MODEL, '                features=["color"],\n            ),\n            "species_tree": self.species_lca.tree.write(',
      '                features=[],\n            ),\n            "species_tree": self.species_lca.tree.write(', "TREE-WRITE-ARGS"),
    M("ser-read-format", MODEL, 'object_tree = Tree(data["object_tree"], format=1)', 'object_tree = Tree(data["object_tree"], format=0)', "TREE-WRITE-ARGS"),
    M("ser-binarize-root", MODEL,
      '                    "object_tree": object_tree.write(\n                        format=8,\n                        format_root_node=True,',
      '                    "object_tree": object_tree.write(\n                        format=8,\n                        format_root_node=False,', "TREE-WRITE-ARGS"),
    M("ser-costs-not-read", MODEL, '        if "costs" in data:\n            costs = {}', '        if "cost" in data:\n            costs = {}', "DICT-KEYS"),
    M("label-renames", MODEL, 'if not node_object.name or node_object.name == "NoName":', "if True:", "LABEL-GUARD"),
    M("label-no-collision-test", MODEL, '                while f"O{next_object}" in self.object_tree:\n                    next_object += 1\n\n', "", "LABEL-GUARD"),
    M("label-postorder", MODEL, 'for node_object in self.object_tree.traverse("preorder"):', 'for node_object in self.object_tree.traverse("postorder"):', "LABEL-GUARD"),
    M("enum-clash", MODEL, "    # Loss of a segment of the synteny\n    SEGMENTAL_LOSS = auto()\n", "    # Loss of a segment of the synteny\n    SEGMENTAL_LOSS = auto()\n    DUPLICATION = auto()\n", "ENUM-DISJOINT"),
    M("map-swapped", TMAP, "{from_node.name: to_node.name for", "{to_node.name: from_node.name for", "MAPPING-KEYING"),
    M("map-wrong-tree", TMAP, "from_tree & from_node: to_tree & to_node", "from_tree & from_node: from_tree & to_node", "MAPPING-KEYING"),
    M("syn-key-object", SYN, "return {tree & node: synteny for node, synteny in data.items()}", "return {node: synteny for node, synteny in data.items()}", "MAPPING-KEYING"),
    # ---------------- CLI ---------------------------------------------------
    M("cli-no-label", CLI, "    rec_input.label_internal()\n    return rec_input", "    return rec_input", "LABEL-PASS"),
    M("cli-extra-choice", CLI, 'choices=("any", "all"),', 'choices=("any", "all", "best"),', "CHOICES-ENUM"),
    M("cli-error-falls-through", CLI,
      'algorithm: you need to provide leaf syntenies",\n                file=sys.stderr,\n            )\n            return None',
      'algorithm: you need to provide leaf syntenies",\n                file=sys.stderr,\n            )', "ERROR-PATH"),
    M("cli-status-zero", CLI, "    if results is None:\n        return 1", "    if results is None:\n        return 0", "CLI-FLOW-TABLE"),
    M("cli-cost-constant", CLI, 'print("Minimum cost:", results[0].cost(), file=sys.stderr)', 'print("Minimum cost:", 0, file=sys.stderr)', "CLI-COST-SOURCE"),
    M("cli-cost-option-missing", CLI, '    EdgeEvent.SEGMENTAL_LOSS: ("sloss", "a segmental loss"),\n', "", "COST-OPTIONS"),
    M("cli-registry-lambda", CLI, '    "lca": reconcile_lca,', '    "lca": lambda rec_input: reconcile_lca(rec_input),', "REGISTRY-SIGNATURE"),
    # ---------------- utils -------------------------------------------------
    M("topo-no-restore", TOPO, "        for node_to in graph[node_from]:\n            indeg[node_to] += 1\n", "", "RESTORE-PAIRING"),
    M("topo-shared-starts", TOPO, "next_starts = set(starts)", "next_starts = starts", "FRESH-STARTS"),
    M("topo-no-discard", TOPO, "            starts.discard(succ)\n", "", "INDEG-INIT"),
    M("topo-no-cycle-check", TOPO, "        if len(subresult) != len(graph):\n            return []\n", "", "INDEG-INIT"),
    M("topo-restore-other", TOPO, "        for node_to in graph[node_from]:\n            indeg[node_to] += 1\n", "        for node_to in next_starts:\n            indeg[node_to] += 1\n", "RESTORE-PAIRING"),
    M("dset-shallow", DSET, "part_1 = deepcopy(partition)", "part_1 = partition", "COPY-BEFORE-MUTATE"),
    M("trees-share-subtree", TREES, "root.add_child(left_tree.copy())", "root.add_child(left_tree)", "FRESH-ATTACH"),
    M("trees-graft-share", TREES, "result.add_child(right.copy())", "result.add_child(right)", "FRESH-ATTACH"),
    M("binarize-name-only", TREES, "for key in node.features:", 'for key in ("name",):', "FEATURE-COPY"),
    M("binarize-preorder", TREES, '    for node in tree.traverse("postorder"):\n        if node.is_leaf():\n            subtrees[node] = node',
      '    for node in tree.traverse("preorder"):\n        if node.is_leaf():\n            subtrees[node] = node', "TRAVERSAL"),
    # ---------------- render ------------------------------------------------
    M("layout-arm-size", LAYOUT, "next_pos_across -= size.h\n                    pos = Position(-size.w, next_pos_across)",
      "next_pos_across -= size.w\n                    pos = Position(-size.w, next_pos_across)", "SIGMA-INVARIANCE"),
    M("layout-anchor", LAYOUT, 'branch["anchor_left"] = branch_rect.top()', 'branch["anchor_left"] = branch_rect.bottom()', "SIGMA-INVARIANCE"),
    M("layout-asym-common", LAYOUT, "subtree_span += params.level_spacing + fork_thickness", "subtree_span += params.level_spacing + fork_thickness + trunk_width", "SIGMA-INVARIANCE"),
    M("geom-bottom", GEOM, "return Position(self.x + self.w / 2, self.y + self.h)", "return Position(self.x + self.w / 2, self.y + self.w)", "SIGMA-CLOSURE"),
    M("geom-meet", GEOM, "return Position(pos[0], self.y)", "return Position(pos[0], pos[1])", "SIGMA-CLOSURE"),
    M("layout-kind-stored", LAYOUT, '"kind": NodeEvent.DUPLICATION,', '"kind": NodeEvent.SPECIATION,', "KIND-AGREE"),
    M("layout-dup-loss-end", LAYOUT,
      "                    left_gene = _add_losses(\n                        layout_state,\n                        left_gene,\n                        mapping[left_gene],\n                        root_species.up,",
      "                    left_gene = _add_losses(\n                        layout_state,\n                        left_gene,\n                        mapping[left_gene],\n                        root_species,",
      "LOSS-MARKERS"),
    M("layout-loss-walk", LAYOUT, "    prev_species = start_species\n    start_species = start_species.up\n\n    while", "    prev_species = start_species\n\n    while", "LOSS-MARKERS"),
    M("layout-color-scalar", LAYOUT, NEW_COLOR_BLOCK, OLD_COLOR_BLOCK, "PREORDER-STATE"),
    M("layout-unescaped", LAYOUT, "map(tex.escape, syntenies[root_gene]),", "syntenies[root_gene],", "ESCAPE-TAINT"),
    M("layout-unescaped-name", LAYOUT, 'rf"{tex.escape(species_name)}"', 'rf"{species_name}"', "ESCAPE-TAINT"),
    M("layout-label-omit", LAYOUT, 'name = synteny if not equal_to_parent else ""', 'name = synteny if equal_to_parent else ""', "LABEL-OMIT"),
    M("layout-lockstep", LAYOUT, "            branch_nodes.append(node)\n            branches.append((branch[\"kind\"], branch[\"name\"]))",
      "            branch_nodes.append(node)\n            if branch[\"name\"]:\n                branches.append((branch[\"kind\"], branch[\"name\"]))", "MEASURE-LOCKSTEP"),
    M("tikz-unterminated", TIKZ, '}) {{{branch.name}}};"""\n            )\n        elif branch.kind == NodeEvent.DUPLICATION:',
      '}) {{{branch.name}}}"""\n            )\n        elif branch.kind == NodeEvent.DUPLICATION:', "TEMPLATE-TERMINATED"),
    M("tikz-unbalanced", TIKZ, '}}}] at ({loss_pos : {MAX_DIGITS}}) {{}};"""', '}}}] at ({loss_pos : {MAX_DIGITS}}) {{;"""', "TEMPLATE-BRACES"),
    M("tikz-raw-color", TIKZ, 'rf"""\\path[branch={{{get_color(branch.color)}}}] ({\n                    branch.anchor_parent',
      'rf"""\\path[branch={{{branch.color}}}] ({\n                    branch.anchor_parent', "COLOR-INTERN"),
    M("tikz-wrong-style", TIKZ, 'rf"""\\node[speciation={{{get_color(branch.color)}}}] at ({', 'rf"""\\node[duplication={{{get_color(branch.color)}}}] at ({', "ONE-EVENT-NODE"),
    M("tikz-arrow-layer", TIKZ, 'layers["gene transfers"].append(', 'layers["gene branches"].append(', "ONE-ARROW"),
    M("tikz-arrow-end", TIKZ, "foreign_pos = foreign_layout.anchors[right_gene]", "foreign_pos = foreign_layout.anchors[left_gene]", "ONE-ARROW"),
    M("tikz-measure-style", TIKZ, 'node_type = "[duplication]"', 'node_type = "[speciation]"', "ONE-EVENT-NODE"),
    M("tikz-no-end", TIKZ, '    result.append(r"\\end{tikzpicture}")\n', "", "PICTURE-ENV"),
    M("tikz-measure-no-loss", TIKZ, '            elif kind == EdgeEvent.FULL_LOSS:\n                node_type = "[loss]"\n', "", "KIND-EXHAUSTIVE"),
    M("tikz-undefined-style", TIKZ, 'node_type = "[loss]"', 'node_type = "[lost]"', "STYLE-DEFINED", "ONE-EVENT-NODE"),
    M("tikz-colors-late", TIKZ, '    result.append(r"\\begin{tikzpicture}")\n\n    for name, layer in layers.items():',
      '    for name, layer in layers.items():', "PICTURE-ENV"),
    M("tikz-unescaped-species", TIKZ, "species_name = tex.escape(species_node.name)", "species_name = species_node.name", "ESCAPE-TAINT"),
    M("tikz-color-index", TIKZ, 'return f"{color_prefix}{len(colors) - 1}"', 'return f"{color_prefix}{len(colors)}"', "COLOR-INTERN"),
    M("tex-escape-order", TEX, 'return text.replace("\\\\", "\\\\\\\\").replace(r"_", r"\\_")', 'return text.replace(r"_", r"\\_").replace("\\\\", "\\\\\\\\")', "ESCAPE-ORDER"),
    M("tex-escape-no-underscore", TEX, '.replace(r"_", r"\\_")', "", "ESCAPE-ORDER"),
    M("tex-parse-sorted", TEX, "    return boxes\n", "    return sorted(boxes)\n", "MEASURE-LOCKSTEP"),
    # ======================= TWINS =========================================
    T("twin-thl-reassociate", REC, "spe_cost + left.value + right.value", "left.value + (right.value + spe_cost)"),
    T("twin-thl-loss-form", REC, "loss_cost * (species_lca.distance(root_species, left_child) - 1)", "loss_cost * species_lca.distance(root_species, left_child) - loss_cost"),
    T("twin-thl-guard-nested", REC,
      "    if root_object.is_leaf() and not table[root_object][root_species].is_infinite():\n        yield ReconciliationOutput(rec_input, {root_object: root_species})\n        return\n",
      "    if root_object.is_leaf():\n        if not table[root_object][root_species].is_infinite():\n            yield ReconciliationOutput(rec_input, {root_object: root_species})\n        return\n"),
    T("twin-thl-children-index", REC, "    left_species, right_species = root_species.children\n    left_node, right_node = root_node.children\n",
      "    left_species = root_species.children[0]\n    right_species = root_species.children[1]\n    left_node, right_node = root_node.children\n"),
    T("twin-spfs-commute", SPFS, "species_dist = above_species_dist - floss_cost", "species_dist = -floss_cost + above_species_dist"),
    T("twin-spfs-sentinel-eq", SPFS, "if conserv_segments < 0:", "if conserv_segments == -1:"),
    T("twin-spfs-sentinel-not-ge", SPFS, "if conserv_segments < 0:", "if not conserv_segments >= 0:"),
    T("twin-spfs-augassign", SPFS, "                conserv_dist = conserv_segments * sloss_cost\n", "                conserv_dist = conserv_segments\n                conserv_dist *= sloss_cost\n"),
    T("twin-spfs-setdefault", SPFS, "            if gene_1 not in prec:\n                prec[gene_1] = set()\n            prec[gene_1].add(gene_2)",
      "            prec.setdefault(gene_1, set())\n            prec[gene_1].add(gene_2)"),
    T("twin-spfs-ext-preorder", SPFS, 'allowed_species=lambda species, _: species.traverse("postorder"),', "allowed_species=lambda species, _: list(species.traverse()),"),
    T("twin-uspfs-set-union", USPFS, "ancestor_synteny = ancestor_synteny | gain_sets[root_object]", "ancestor_synteny = set(ancestor_synteny) | gain_sets[root_object]"),
    T("twin-uspfs-union-method", USPFS, "ancestor_synteny = ancestor_synteny | gain_sets[root_object]", "ancestor_synteny = ancestor_synteny.union(gain_sets[root_object])"),
    T("twin-uspfs-reorder-terms", USPFS, "value=above_species_dist + inh_cost + lca_inh_dist,\n                        info=inh_assign,\n                    ),\n                )\n\n                subprobs[child_index][inh].segment",
      "value=lca_inh_dist + inh_cost + above_species_dist,\n                        info=inh_assign,\n                    ),\n                )\n\n                subprobs[child_index][inh].segment"),
    T("twin-dp-ifexp-reset", DP, "                if info and (is_all or is_any):\n                    self._infos = {info}\n                else:\n                    self._infos = set()\n",
      "                self._infos = {info} if (info and (is_all or is_any)) else set()\n"),
    T("twin-dp-flip-compare", DP, "(is_min and self._value > value)", "(is_min and value < self._value)"),
    T("twin-dp-len-test", DP, "(is_any and not self._infos)", "(is_any and len(self._infos) == 0)"),
    T("twin-eval-reorder", MODEL, "(left_dist + right_dist - 2)", "(left_dist - 2 + right_dist)"),
    T("twin-eval-comparable", MODEL, "            if species_lca.is_ancestor_of(rec[node], rec[left_node])\n            else right_dist", "            if species_lca.is_comparable(rec[node], rec[left_node])\n            else right_dist"),
    T("twin-ser-key-order", MODEL, '            "input": self.input.to_dict(),\n            "object_species": serialize_tree_mapping(self.object_species),',
      '            "object_species": serialize_tree_mapping(self.object_species),\n            "input": self.input.to_dict(),'),
    T("twin-cli-label-in-reconcile", CLI, "    rec_input.label_internal()\n    return rec_input", "    return rec_input"),
    T("twin-topo-copy", TOPO, "next_starts = set(starts)", "next_starts = starts.copy()"),
    T("twin-geom-commute", GEOM, "return Position(self.x + self.w / 2, self.y)", "return Position(self.w / 2 + self.x, self.y)"),
    T("twin-layout-reorder", LAYOUT, "                trunk_width = 0\n                trunk_height = params.trunk_overhead", "                trunk_height = params.trunk_overhead\n                trunk_width = 0"),
    T("twin-layout-keywords", LAYOUT, 'state["trunk"] = Rect.make_from(Position(0, 0), trunk_size)', 'state["trunk"] = Rect.make_from(position=Position(0, 0), size=trunk_size)'),
    T("twin-layout-orient-neq", LAYOUT, "                if params.orientation == Orientation.VERTICAL:\n                    next_pos_across -= size.w\n                    pos = Position(next_pos_across, -size.h)\n                else:\n                    next_pos_across -= size.h\n                    pos = Position(-size.w, next_pos_across)",
      "                if params.orientation != Orientation.VERTICAL:\n                    next_pos_across -= size.h\n                    pos = Position(-size.w, next_pos_across)\n                else:\n                    next_pos_across -= size.w\n                    pos = Position(next_pos_across, -size.h)"),
    T("twin-trees-deepcopy", TREES, "root.add_child(left_tree.copy())", 'root.add_child(left_tree.copy("deepcopy"))'),
    T("twin-tikz-whitespace", TIKZ, "}}}] at ({loss_pos : {MAX_DIGITS}}) {{}};\"\"\"", "}}}]   at ({loss_pos : {MAX_DIGITS}}) {{}};\"\"\""),
]

VARIANTS += [
    T("twin-spfs-candidate-var", SPFS,
      "                    subprobs[child_index].separate.update(\n                        Candidate(\n                            value=sub_cost + segment_dist,\n                            info=assignment,\n                        )\n                    )",
      "                    separate_candidate = Candidate(value=sub_cost + segment_dist, info=assignment)\n                    subprobs[child_index].separate.update(separate_candidate)"),
    T("twin-thl-entry-alias", REC, "    for info in table[root_object][root_species].infos():",
      "    entry = table[root_object][root_species]\n    for info in entry.infos():"),
    T("twin-thl-listcomp", REC,
      "        results.update(\n            *map(\n                lambda output: Candidate(output.cost(), output),\n                _decode_thl_table(root_object, root_species, rec_input, table),\n            )\n        )",
      "        results.update(\n            *[\n                Candidate(output.cost(), output)\n                for output in _decode_thl_table(root_object, root_species, rec_input, table)\n            ]\n        )"),
    Variant("twin-cli-rename-results", CLI, [("results", "outputs")], (), twin=True, every=True),
    Variant("twin-thl-rename-loss", REC, [("conserv_loss", "closs")], (), twin=True, every=True),
    Variant("twin-spfs-rename-assignment", SPFS, [("assignment", "placement")], (), twin=True, every=True),
    Variant("twin-layout-rename-size", LAYOUT, [("trunk_size", "trunk_extent"), ("subtree_span", "subtree_reach")], (), twin=True, every=True,
            note="(the earlier form renamed every `size`, including the keyword of Rect.make_from: not a program that runs)"),
    Variant("twin-layout-rename-size-key", LAYOUT, [('"size"', '"extent"')], (), twin=True, every=True),
    Variant("twin-dp-rename-info", DP, [("candidate", "cand")], (), twin=True, every=True),
    T("twin-uspfs-inline-tuple", USPFS,
      "                        subprobs[child_index][inh].left.update(*inh_candidates)",
      "                        subprobs[child_index][inh].left.update(inh_candidates[0], inh_candidates[1])"),
    T("twin-model-docstring", MODEL, '        """Compute the total cost of this reconciliation."""', '        """Compute the total cost (events plus full losses) of this reconciliation."""'),
    T("twin-tikz-comment", TIKZ, "    # Append layers in order\n", "    # Emit the layers, background first\n"),
]


# ---------------------------------------------------------------------------
# variants for the rules added in the second build round
TEXT = "utils/text.py"
RENDER_MODEL = "render/model.py"
DRAW = "cli/draw.py"

VARIANTS += [
    # node_event decision table / conserved side
    M("event-spe-no-lca-test", MODEL,
      "                if (\n                    rec[node] == species_lca(rec[left_node], rec[right_node])\n                    and not species_lca.is_comparable(",
      "                if (\n                    not species_lca.is_comparable(", "EVENT-TABLE"),
    M("event-invalid-weakened", MODEL,
      "        if species_lca.is_strict_ancestor_of(\n            rec[left_node], rec[node]\n        ) or species_lca.is_strict_ancestor_of(rec[right_node], rec[node]):\n            return NodeEvent.INVALID\n",
      "        if species_lca.is_strict_ancestor_of(\n            rec[left_node], rec[node]\n        ) and species_lca.is_strict_ancestor_of(rec[right_node], rec[node]):\n            return NodeEvent.INVALID\n", "EVENT-TABLE"),
    M("event-hgt-both", MODEL,
      "        if species_lca.is_ancestor_of(\n            rec[node], rec[left_node]\n        ) or species_lca.is_ancestor_of(rec[node], rec[right_node]):\n            return NodeEvent.HORIZONTAL_TRANSFER\n\n        return NodeEvent.INVALID",
      "        return NodeEvent.HORIZONTAL_TRANSFER", "EVENT-TABLE", "EVENT-EXHAUSTIVE"),
    M("event-leaf-flipped", MODEL, "                if rec[node] == self.input.leaf_object_species[node]\n                else NodeEvent.INVALID",
      "                if rec[node] != self.input.leaf_object_species[node]\n                else NodeEvent.INVALID", "EVENT-TABLE"),
    M("eval-hgt-min-dist", MODEL,
      "        dist_conserved = (\n            left_dist\n            if species_lca.is_ancestor_of(rec[node], rec[left_node])\n            else right_dist\n        )",
      "        dist_conserved = min(left_dist, right_dist)", "MODEL-TABLE", "CONSERVED-SIDE"),
    M("eval-keep-left-swapped-args", MODEL,
      "                    keep_left = self.input.species_lca.is_comparable(\n                        rec[node], rec[left_node]\n                    )",
      "                    keep_left = self.input.species_lca.is_ancestor_of(\n                        rec[left_node], rec[node]\n                    )", "CONSERVED-SIDE"),
    T("twin-event-strict-as-neq", MODEL,
      "        if species_lca.is_strict_ancestor_of(\n            rec[left_node], rec[node]\n        ) or species_lca.is_strict_ancestor_of(rec[right_node], rec[node]):",
      "        if (\n            rec[left_node] != rec[node] and species_lca.is_ancestor_of(rec[left_node], rec[node])\n        ) or species_lca.is_strict_ancestor_of(rec[right_node], rec[node]):"),
    T("twin-event-lca-order", MODEL, "rec[node] == species_lca(rec[left_node], rec[right_node])", "species_lca(rec[right_node], rec[left_node]) == rec[node]"),
    # homogeneity / monotonicity
    M("thl-parens-dropped", REC, "left_loss = loss_cost * (species_lca.distance(root_species, left_child) - 1)",
      "left_loss = loss_cost * species_lca.distance(root_species, left_child) - 1", "COST-HOMOGENEOUS", "EVENT-SIG"),
    M("spfs-wrong-loss-key", SPFS, "species_dist = above_species_dist - floss_cost", "species_dist = above_species_dist - sloss_cost", "COST-MONOTONE", "EVENT-SIG"),
    # statelessness
    M("thl-lru-cache", REC, "def _compute_thl_table(", "@lru_cache(maxsize=32)\ndef _compute_thl_table(", "SOLVER-STATELESS"),
    M("lca-class-level-index", TREES, "        self.traversal_index: Dict[TreeNode, int] = {}\n", "", "SOLVER-STATELESS"),
    M("tikz-shared-layers", TIKZ,
      "    layers: Dict[str, List[str]] = {\n        \"background\": [],\n        \"gene branches\": [],\n        \"gene transfers\": [],\n        \"events\": [],\n    }\n",
      "    layers: Dict[str, List[str]] = dict(LAYERS)\n", "SOLVER-STATELESS"),
    M("lca-input-alias", REC, "    rec = {}\n\n    for node in rec_input.object_tree.traverse(\"postorder\"):\n        if node.is_leaf():",
      "    rec = rec_input.leaf_object_species\n\n    for node in rec_input.object_tree.traverse(\"postorder\"):\n        if node.is_leaf():", "READONLY-INPUT"),
    M("graft-drop-ignore", TREES, "for graft_right in graft(right, leaf, ignore):", "for graft_right in graft(right, leaf):", "RECURSE-FORWARD"),
    M("pseudogene-namedtuple", RENDER_MODEL, "class PseudoGene:  # pylint:disable=too-few-public-methods", "class PseudoGene(NamedTuple):", "IDENTITY-KEYS"),
    M("topo-pop-successors", TOPO, "        for node_to in graph[node_from]:\n            indeg[node_to] -= 1\n\n            if indeg[node_to] == 0:\n                starts.append(node_to)",
      "        succs = graph[node_from]\n        while succs:\n            node_to = succs.pop()\n            indeg[node_to] -= 1\n\n            if indeg[node_to] == 0:\n                starts.append(node_to)", "READONLY-GRAPH"),
    M("layout-pruned-walk", LAYOUT, "        for root_gene in gene_tree.traverse(\"postorder\"):\n            if mapping[root_gene] != root_species:",
      "        for root_gene in gene_tree.traverse(\"postorder\", is_leaf_fn=lambda g: False):\n            if mapping[root_gene] != root_species:", "NO-PRUNED-TRAVERSAL"),
    M("output-eq-by-name", MODEL, "    def __hash__(self):\n        return hash(\n            (\n                self.input,\n                tuple(sorted(serialize_tree_mapping(self.object_species).items())),",
      "    def __eq__(self, other):\n        return self.input == other.input and serialize_tree_mapping(self.object_species) == serialize_tree_mapping(other.object_species)\n\n    def __hash__(self):\n        return hash(\n            (\n                self.input,\n                tuple(sorted(serialize_tree_mapping(self.object_species).items())),",
      "EQ-BY-FIELDS"),
    # decoders
    M("uspfs-content-not-passed", USPFS, "        ancestor_synteny = ancestor_synteny | gain_sets[root_object]\n        root_synteny = sort_synteny(ancestor_synteny)",
      "        root_synteny = sort_synteny(ancestor_synteny | gain_sets[root_object])", "DECODE-CONTENT-FLOW"),
    T("twin-uspfs-content-named", USPFS, "        ancestor_synteny = ancestor_synteny | gain_sets[root_object]\n        root_synteny = sort_synteny(ancestor_synteny)",
      "        own_content = ancestor_synteny | gain_sets[root_object]\n        ancestor_synteny = own_content\n        root_synteny = sort_synteny(own_content)"),
    M("spfs-ext-shortcut", SPFS, "    return _spfs(\n        srec_input,\n        policy,\n        allowed_species=lambda species, _: species.traverse(\"postorder\"),",
      "    if srec_input.costs[NodeEvent.HORIZONTAL_TRANSFER] >= 100:\n        return sreconcile_base_spfs(srec_input, policy)\n\n    return _spfs(\n        srec_input,\n        policy,\n        allowed_species=lambda species, _: species.traverse(\"postorder\"),",
      "BASE-EXT-SHARE"),
    # serialisation / command line
    M("fromdict-cost-or-default", MODEL, "                costs[event_enum] = value\n", "                costs[event_enum] = value or get_default_cost()[event_enum]\n", "COST-PASSTHROUGH", "COST-TRUTH"),
    M("cli-cost-or-default", CLI, "(kind, getattr(args, f\"cost_{argname}\"))", "(kind, getattr(args, f\"cost_{argname}\", None) or get_default_cost()[kind])", "COST-PASSTHROUGH", "COST-TRUTH"),
    M("thl-cost-or-default", REC, "    spe_cost = costs[NodeEvent.SPECIATION]\n    loss_cost = costs[EdgeEvent.FULL_LOSS]\n",
      "    spe_cost = costs[NodeEvent.SPECIATION]\n    loss_cost = costs[EdgeEvent.FULL_LOSS] or 1\n", "COST-TRUTH"),
    T("twin-fromdict-none-default", MODEL, "                costs[event_enum] = value\n", "                costs[event_enum] = value if value is not None else get_default_cost()[event_enum]\n"),
    M("map-lowercase-index", TMAP, "    return {\n        from_tree & from_node: to_tree & to_node for from_node, to_node in data.items()\n    }",
      "    to_nodes = {node.name.lower(): node for node in to_tree.traverse()}\n    return {\n        from_tree & from_node: to_nodes[to_node.lower()] for from_node, to_node in data.items()\n    }", "MAPPING-KEYING"),
    T("twin-map-exact-index", TMAP, "    return {\n        from_tree & from_node: to_tree & to_node for from_node, to_node in data.items()\n    }",
      "    to_nodes = {node.name: node for node in to_tree.traverse()}\n    return {\n        from_tree & from_node: to_nodes[to_node] for from_node, to_node in data.items()\n    }"),
    M("syn-sort-non-sequences", SYN, "sort_synteny(synteny) if isinstance(synteny, set) else list(synteny)",
      "list(synteny) if isinstance(synteny, (list, tuple)) else sort_synteny(synteny)", "ORDER-PRESERVED"),
    T("twin-syn-frozenset", SYN, "sort_synteny(synteny) if isinstance(synteny, set) else list(synteny)",
      "sort_synteny(synteny) if isinstance(synteny, (set, frozenset)) else list(synteny)"),
    M("draw-dispatch-input", DRAW, "    if \"syntenies\" in data:", "    if \"syntenies\" in data or \"leaf_syntenies\" in data.get(\"input\", {}):", "DISPATCH-KEYS"),
    T("twin-draw-dispatch-not-in", DRAW, "    if \"syntenies\" in data:\n        rec_output = SuperReconciliationOutput.from_dict(data)\n    else:\n        rec_output = ReconciliationOutput.from_dict(data)",
      "    if \"syntenies\" not in data:\n        rec_output = ReconciliationOutput.from_dict(data)\n    else:\n        rec_output = SuperReconciliationOutput.from_dict(data)"),
    M("cli-partial-input-copy", CLI, "algorithm: declared leaf syntenies will be ignored\",\n                file=sys.stderr,\n            )\n",
      "algorithm: declared leaf syntenies will be ignored\",\n                file=sys.stderr,\n            )\n            rec_input = ReconciliationInput(rec_input.object_tree, rec_input.species_lca, rec_input.leaf_object_species)\n",
      "FIELD-COPY-COMPLETE"),
    M("binarize-exhausted-iterator", MODEL,
      "        for object_tree, species_tree in product(\n            binarize(self.object_tree),\n            binarize(self.species_lca.tree),\n        ):\n",
      "        object_trees = binarize(self.object_tree)\n        for species_tree in binarize(self.species_lca.tree):\n          for object_tree in object_trees:\n",
      "ITERATOR-REUSE", note="indentation of the body is kept by the two-space inner loop"),
    # utils
    M("dset-early-return", DSET, "        if self.rank[rep_first] == self.rank[rep_second]:\n            self.rank[rep_first] += 1\n            self.parent[rep_second] = rep_first\n        elif",
      "        if self.rank[rep_first] < self.rank[rep_second]:\n            self.parent[rep_first] = rep_second\n            return True\n\n        if self.rank[rep_first] == self.rank[rep_second]:\n            self.rank[rep_first] += 1\n            self.parent[rep_second] = rep_first\n        elif",
      "GROUPS-PAIRING"),
    M("triples-leaves-from-triples", TREES, "        tree_leaves, tree_triples = tree_to_triples(tree)\n        leaves.update(tree_leaves)\n        triples.update(tree_triples)\n",
      "        triples.update(tree_to_triples(tree)[1])\n\n    for triple in triples:\n        leaves.update(triple)\n", "LEAVES-SOURCE"),
    T("twin-triples-leaf-names", TREES, "        tree_leaves, tree_triples = tree_to_triples(tree)\n        leaves.update(tree_leaves)\n        triples.update(tree_triples)\n",
      "        triples.update(tree_to_triples(tree)[1])\n        leaves.update(tree.get_leaf_names())\n"),
    M("topo-empty-early-exit", TOPO, "    results = _toposort_all_bt(starts, graph, indeg)\n", "    if not starts:\n        return []\n\n    results = _toposort_all_bt(starts, graph, indeg)\n", "EMPTY-RESULT-GUARD"),
    T("twin-topo-nonempty-early-exit", TOPO, "    results = _toposort_all_bt(starts, graph, indeg)\n", "    if graph and not starts:\n        return []\n\n    results = _toposort_all_bt(starts, graph, indeg)\n"),
    M("dp-table-template-copy", DP, "        return [_generate_table(rem) for i in range(dim.length)]", "        template = _generate_table(rem)\n        return [list(template) if template else template for _ in range(dim.length)]", "TABLE-FRESH-CELLS"),
    M("dp-combine-explicit-inf", DP, "result = Entry(self._merge_policy, self._retention_policy)", "result = Entry(inf, set(), self._merge_policy, self._retention_policy)", "POLARITY"),
    M("wrap-break-words", TEXT, "        next_result = textwrap.wrap(text, width, break_long_words=False)", "        next_result = textwrap.wrap(text, width)", "WRAP-DISCIPLINE"),
    M("wrap-line-count-unchecked", TEXT, "        if len(next_result) != line_count:\n            break\n", "", "WRAP-DISCIPLINE"),
    T("twin-wrap-eq-guard", TEXT, "        if len(next_result) != line_count:\n            break\n\n        next_badness = _wrap_badness(next_result)\n\n        if next_badness < best_badness:\n            best_result = next_result\n            best_badness = next_badness",
      "        if len(next_result) == line_count:\n            next_badness = _wrap_badness(next_result)\n\n            if next_badness < best_badness:\n                best_result = next_result\n                best_badness = next_badness\n        else:\n            break"),
    # render
    M("losses-colour-from-prev", LAYOUT, "    color = getattr(gene, \"color\", None)\n    prev_species = start_species", "    prev_species = start_species", "COLOR-SOURCE",
      note="second edit moves the read into the loop"),
    M("losses-left-links-gene", LAYOUT, "            \"left\": prev_gene if is_left else None,", "            \"left\": gene if is_left else None,", "LOSS-WALK"),
    M("colour-paint-descendants-preorder", LAYOUT,
      "        if not hasattr(root_gene, \"color\") and hasattr(root_gene.up, \"color\"):\n            root_gene.add_feature(\"color\", root_gene.up.color)",
      "        if hasattr(root_gene, \"color\"):\n            for sub_gene in root_gene.iter_descendants():\n                if not hasattr(sub_gene, \"color\"):\n                    sub_gene.add_feature(\"color\", root_gene.color)", "COLOR-INHERIT"),
]
for _v in VARIANTS:
    if _v.name == "losses-colour-from-prev":
        _v.edits.append(("        cur_gene = PseudoGene()\n", "        color = getattr(prev_gene, \"color\", None)\n        cur_gene = PseudoGene()\n"))
    if _v.name == "thl-lru-cache":
        _v.edits.append(("from itertools import product\n", "from functools import lru_cache\nfrom itertools import product\n"))
    if _v.name == "tikz-shared-layers":
        _v.edits.append(("MAX_DIGITS = 4\n", "MAX_DIGITS = 4\nLAYERS: Dict[str, List[str]] = {\"background\": [], \"gene branches\": [], \"gene transfers\": [], \"events\": []}\n"))
    if _v.name == "lca-class-level-index":
        _v.edits.append(("    def __init__(self, tree: Tree):\n        \"\"\"\n        Pre-compute the sparse table for lowest common ancestor queries.", "    traversal_index: Dict[TreeNode, int] = {}\n\n    def __init__(self, tree: Tree):\n        \"\"\"\n        Pre-compute the sparse table for lowest common ancestor queries."))
    if _v.name == "fromdict-cost-or-default":
        pass


RMQF = "utils/range_min_query.py"
SUBS = "utils/subsequences.py"
VARIANTS += [
    M("lca-anc-swapped", TREES, "        return self(first, second) == first\n\n    def is_strict_ancestor_of", "        return self(first, second) == second\n\n    def is_strict_ancestor_of", "DERIVED-QUERIES"),
    M("lca-strict-not-strict", TREES, "return self(first, second) == first and first != second", "return self(first, second) == first", "DERIVED-QUERIES"),
    M("lca-distance-one-lca", TREES, "self.level(first) + self.level(second) - 2 * self.level(self(first, second))", "self.level(first) + self.level(second) - self.level(self(first, second))", "DERIVED-QUERIES"),
    M("lca-comparable-one-way", TREES, "        return self.is_ancestor_of(\n            first, second\n        ) or self.is_ancestor_of(  # pylint:disable=arguments-out-of-order\n            second, first\n        )",
      "        return self.is_ancestor_of(first, second)", "DERIVED-QUERIES"),
    T("twin-lca-distance-via-lca-var", TREES, "        return (\n            self.level(first) + self.level(second) - 2 * self.level(self(first, second))\n        )",
      "        top = self(first, second)\n        return (self.level(first) - self.level(top)) + (self.level(second) - self.level(top))"),
    T("twin-lca-anc-flipped-eq", TREES, "        return self(first, second) == first\n\n    def is_strict_ancestor_of", "        return first == self(second, first)\n\n    def is_strict_ancestor_of"),
    M("lca-last-occurrence", TREES, "            if node not in self.traversal_index:\n                self.traversal_index[node] = i", "            self.traversal_index[node] = i", "EULER-INDEX"),
    M("lca-closed-range", TREES, "result = self.range_min_query(start, end + 1)", "result = self.range_min_query(start, end)", "EULER-INDEX"),
    M("euler-no-revisit", TREES, "        tour.extend(_euler_tour(child, level + 1))\n        tour.append((level, root))\n", "        tour.extend(_euler_tour(child, level + 1))\n", "EULER-INDEX"),
    M("euler-same-level", TREES, "tour.extend(_euler_tour(child, level + 1))", "tour.extend(_euler_tour(child, level))", "EULER-INDEX"),
    M("rmq-second-window", RMQF, "self.sparse_table[depth][stop - 2**depth],", "self.sparse_table[depth][stop - 2**depth + 1],", "RMQ-WINDOWS"),
    M("rmq-half-step", RMQF, "right = self.sparse_table[depth - 1][i + 2 ** (depth - 1)]", "right = self.sparse_table[depth - 1][i + 2**depth]", "RMQ-WINDOWS"),
    M("rmq-starts-short", RMQF, "for i in range(length - 2**depth + 1):", "for i in range(length - 2**depth):", "RMQ-WINDOWS"),
    M("rmq-empty-test", RMQF, "        if start >= stop:\n            return None", "        if start > stop:\n            return None", "RMQ-WINDOWS"),
    T("twin-rmq-shift", RMQF, "self.sparse_table[depth][stop - 2**depth],", "self.sparse_table[depth][stop - (1 << depth)],"),
    M("mask-msb-first", SUBS, "            mask |= 1 << parent_i\n", "            mask |= 1 << (len(parent) - 1 - parent_i)\n", "BIT-ORDER"),
    M("mask-reader-index-on-set-bits", SUBS, "        child >>= 1\n        parent_i += 1\n\n    return result", "            parent_i += 1\n\n        child >>= 1\n\n    return result", "BIT-ORDER"),
    M("mask-complete-short", SUBS, "return (1 << len(sequence)) - 1", "return (1 << (len(sequence) - 1)) - 1", "BIT-ORDER"),
    M("segdist-recount-open-run", SUBS, "                if not in_segm:\n                    dist += 1\n                    in_segm = True", "                dist += 1\n                in_segm = True", "SEGMENT-MACHINE"),
    M("segdist-no-close", SUBS, "            elif in_segm:\n                in_segm = False\n", "", "SEGMENT-MACHINE"),
    M("segdist-final-always", SUBS, "    if in_segm and not edges:\n        dist -= 1", "    if in_segm:\n        dist -= 1", "SEGMENT-MACHINE"),
    M("segdist-init-flipped", SUBS, "    in_segm = not edges\n", "    in_segm = edges\n", "SEGMENT-MACHINE"),
    M("segdist-foreign-bit-ignored", SUBS, "        if bit_child and not bit_parent:\n            return -1\n", "", "SEGMENT-MACHINE"),
    T("twin-segdist-nested-if", SUBS, "            elif in_segm:\n                in_segm = False\n", "            else:\n                in_segm = False\n"),
]

VARIANTS += [
    M("tikz-loss-wrong-edge", TIKZ, "                    loss_pos = Position(branch_pos.x, layout.trunk.top().y)", "                    loss_pos = Position(branch_pos.x, layout.trunk.bottom().y)", "SIGMA-DRAW"),
    T("twin-tikz-fork-corner", TIKZ, "                left_layout.trunk.top_left().meet_hv(layout.trunk.top_right()),", "                left_layout.trunk.top_left().meet_hv(layout.trunk.bottom_right()),",
      note="meet_hv only reads the x coordinate of its argument: top_right and bottom_right have the same x"),
    M("tikz-fork-corner-y", TIKZ, "                left_layout.trunk.top_left().meet_hv(layout.trunk.top_right()),", "                left_layout.trunk.top_left().meet_hv(layout.trunk.top_left()),", "SIGMA-DRAW"),
    M("tikz-fork-links-same", TIKZ, "        fork_links = (\"-|\", \"|-\")", "        fork_links = (\"|-\", \"-|\")", "SIGMA-DRAW"),
    M("tikz-leaf-marker-offset", TIKZ, "                leaf_pos = branch.rect.left() + Position(\n                    params.extant_gene_diameter / 2, 0\n                )",
      "                leaf_pos = branch.rect.left() + Position(\n                    0, params.extant_gene_diameter / 2\n                )", "SIGMA-DRAW"),
    T("twin-tikz-fork-join-other-corner", TIKZ, "            fork_join = layout.trunk.bottom_right() + Position(layout.fork_thickness, 0)", "            fork_join = layout.trunk.top_right() + Position(layout.fork_thickness, 0)",
      note="only the x coordinate of fork_join is ever read in the horizontal arm"),
    T("twin-tikz-loss-corner", TIKZ, "                    loss_pos = Position(layout.trunk.right().x, branch_pos.y)", "                    loss_pos = Position(layout.trunk.top_right().x, branch_pos.y)"),
    M("layout-swap-test-reversed", LAYOUT, "if species_lca.is_ancestor_of(left_species, mapping[right_gene]):", "if species_lca.is_ancestor_of(mapping[right_gene], left_species):", "LAYOUT-SIDES"),
    M("layout-hgt-sides", LAYOUT, "                        if species_lca.is_ancestor_of(root_species, mapping[left_gene])\n                        else (right_gene, left_gene)",
      "                        if species_lca.is_ancestor_of(mapping[left_gene], root_species)\n                        else (right_gene, left_gene)", "LAYOUT-SIDES"),
    M("layout-loss-other-species", LAYOUT, "                    right_gene = _add_losses(\n                        layout_state,\n                        right_gene,\n                        mapping[right_gene],\n                        root_species,\n                    )",
      "                    right_gene = _add_losses(\n                        layout_state,\n                        right_gene,\n                        mapping[left_gene],\n                        root_species,\n                    )", "LAYOUT-SIDES"),
    T("twin-layout-swap-test-right-child", LAYOUT, "if species_lca.is_ancestor_of(left_species, mapping[right_gene]):", "if not species_lca.is_ancestor_of(root_species.children[1], mapping[right_gene]):"),
]

VARIANTS += [
    M("gain-sets-update-family", USPFS, "        result[object_lca(*leaves)].add(family)", "        result[object_lca(*leaves)].update(family)", "ELEMENT-UPDATE"),
    M("triples-add-child-none", TREES, "        subtree = tree_from_triples(group_leaves, group_triples)\n\n        if not subtree:\n            return None\n\n        root.add_child(subtree)\n",
      "        subtree = root.add_child(tree_from_triples(group_leaves, group_triples))\n\n        if not subtree:\n            return None\n", "OPTIONAL-CHECKED"),
    M("mask-sentinel-truthiness", SUBS, "    child_i = 0\n    mask = 0\n\n    for parent_i, parent_v in enumerate(parent):\n        if child_i == len(child):\n            break\n\n        if child[child_i] == parent_v:\n            mask |= 1 << parent_i\n            child_i += 1\n",
      "    remaining = iter(child)\n    expected = next(remaining, None)\n    mask = 0\n\n    for parent_i, parent_v in enumerate(parent):\n        if not expected:\n            break\n\n        if expected == parent_v:\n            mask |= 1 << parent_i\n            expected = next(remaining, None)\n",
      "NONE-SENTINEL-TRUTH"),
    T("twin-mask-sentinel-is-none", SUBS, "    child_i = 0\n    mask = 0\n\n    for parent_i, parent_v in enumerate(parent):\n        if child_i == len(child):\n            break\n\n        if child[child_i] == parent_v:\n            mask |= 1 << parent_i\n            child_i += 1\n",
      "    remaining = iter(child)\n    expected = next(remaining, None)\n    mask = 0\n\n    for parent_i, parent_v in enumerate(parent):\n        if expected is None:\n            break\n\n        if expected == parent_v:\n            mask |= 1 << parent_i\n            expected = next(remaining, None)\n"),
    M("layout-swap-children-in-place", LAYOUT, "                        left_gene, right_gene = right_gene, left_gene\n", "                        root_gene.swap_children()\n                        left_gene, right_gene = root_gene.children\n", "NO-TOPOLOGY-WRITE"),
    M("uspfs-skip-ties", USPFS, "        for root_species in tqdm(\n            srec_input_bin.species_lca.tree.traverse(),\n            desc=\"Generate solutions\",",
      "        if min(table[synteny_tree][s][SyntenyAssignment.LCA].value() for s in srec_input_bin.species_lca.tree.traverse()) >= results.value():\n            continue\n\n        for root_species in tqdm(\n            srec_input_bin.species_lca.tree.traverse(),\n            desc=\"Generate solutions\",",
      "RESULT-UNCONDITIONAL"),
    T("twin-uspfs-strict-bound", USPFS, "        for root_species in tqdm(\n            srec_input_bin.species_lca.tree.traverse(),\n            desc=\"Generate solutions\",",
      "        if min(table[synteny_tree][s][SyntenyAssignment.LCA].value() for s in srec_input_bin.species_lca.tree.traverse()) > results.value():\n            continue\n\n        for root_species in tqdm(\n            srec_input_bin.species_lca.tree.traverse(),\n            desc=\"Generate solutions\","),
    M("fromdict-filter-syntenies", MODEL, "            \"leaf_syntenies\": parse_synteny_mapping(\n                parent[\"object_tree\"],\n                data[\"leaf_syntenies\"],\n            ),",
      "            \"leaf_syntenies\": parse_synteny_mapping(\n                parent[\"object_tree\"],\n                {k: v for k, v in data[\"leaf_syntenies\"].items() if (parent[\"object_tree\"] & k).is_leaf()},\n            ),", "FIELD-SOURCE"),
    M("fromdict-merge-inferred", MODEL, "            leaf_object_species = parse_tree_mapping(\n                object_tree, species_tree, data[\"leaf_object_species\"]\n            )",
      "            leaf_object_species = {\n                **parse_tree_mapping(object_tree, species_tree, data[\"leaf_object_species\"]),\n                **get_species_mapping(object_tree, species_tree),\n            }", "FIELD-SOURCE"),
    T("twin-fromdict-merge-explicit-last", MODEL, "            leaf_object_species = parse_tree_mapping(\n                object_tree, species_tree, data[\"leaf_object_species\"]\n            )",
      "            leaf_object_species = {\n                **get_species_mapping(object_tree, species_tree),\n                **parse_tree_mapping(object_tree, species_tree, data[\"leaf_object_species\"]),\n            }"),
    M("sort-key-drops-empty", SYN, "for part in parts]", "for part in parts if part]", "SORT-KEY-ALIGNED"),
    M("entry-shares-tag-set", DP, "            self._infos = set(infos)\n", "            self._infos = infos if isinstance(infos, set) else set(infos)\n", "ENTRY-OWNS-TAGS"),
    M("proxy-memoised-cell", DP, "        entry = self._parent._table  # pylint: disable=protected-access\n\n        for item in self._key:\n            entry = entry[item]\n\n        return entry",
      "        if getattr(self, \"_resolved\", False):\n            return self._real\n        entry = self._parent._table  # pylint: disable=protected-access\n\n        for item in self._key:\n            entry = entry[item]\n\n        self._real = entry\n        self._resolved = True\n        return entry", "SOLVER-STATELESS", "PROXY-NONE"),
    M("rmq-clamped-stop", RMQF, "        if start >= stop:\n            return None\n", "        stop = min(stop, len(self.sparse_table[0]) - 1)\n\n        if start >= stop:\n            return None\n", "RMQ-WINDOWS"),
    M("lca-tour-below-stem", TREES, "        self.traversal = _euler_tour(tree)\n", "        root = tree\n        while len(root.children) == 1:\n            root = root.children[0]\n        self.traversal = _euler_tour(root)\n", "EULER-INDEX"),
    M("lca-distance-branch-lengths", TREES, "        return (\n            self.level(first) + self.level(second) - 2 * self.level(self(first, second))\n        )", "        return first.get_distance(second)", "DERIVED-QUERIES"),
    M("layout-loss-result-dropped", LAYOUT, "                    conserv_gene = _add_losses(\n                        layout_state,\n                        conserv_gene,", "                    conserv_anchor = _add_losses(\n                        layout_state,\n                        conserv_gene,", "LAYOUT-SIDES"),
    M("spfs-ext-clade-only", SPFS, "allowed_species=lambda species, _: species.traverse(\"postorder\"),", "allowed_species=lambda _, obj: reconcile_lca(srec_input).object_species[obj].traverse(\"postorder\"),", "BASE-EXT-SHARE"),
    M("default-cost-shared", MODEL, "            costs = get_default_cost()\n\n        return {", "            costs = get_default_cost()\n\n        costs[NodeEvent.SPECIATION] = costs.get(NodeEvent.SPECIATION, 0)\n        return {", "SOLVER-STATELESS",
      note="needs the second edit that makes get_default_cost hand out a module constant"),
]
for _v in VARIANTS:
    if _v.name == "default-cost-shared":
        _v.edits.append(("def get_default_cost() -> CostValues:\n    \"\"\"Get the default event cost vector.\"\"\"\n    return {", "_DEFAULTS: dict = {}\n\n\ndef get_default_cost() -> CostValues:\n    \"\"\"Get the default event cost vector.\"\"\"\n    return _DEFAULTS\n\n\ndef _unused_defaults():\n    return {"))
    if _v.name == "layout-loss-result-dropped":
        _v.edits.append(("                    state[\"anchor_nodes\"].remove(conserv_gene)\n", "                    state[\"anchor_nodes\"].remove(conserv_anchor)\n"))

VARIANTS += [
    M("layout-filter-dropped", LAYOUT, "            if mapping[root_gene] != root_species:\n                continue\n\n            synteny = (", "            synteny = (", "PLACED-IN-SPECIES"),
    M("layout-division-by-size", LAYOUT, "across = cons_rect.center().x - size.w / 2", "across = cons_rect.center().x - size.w / size.h", "FINITE-ARITH", "SIGMA-INVARIANCE"),
    M("layout-max-unguarded", LAYOUT, "        if state[\"branches\"]:\n            if params.orientation == Orientation.VERTICAL:\n                trunk_width = (", "        if True:\n            if params.orientation == Orientation.VERTICAL:\n                trunk_width = (", "FINITE-ARITH"),
    M("layout-label-of-parent", LAYOUT, "map(tex.escape, syntenies[root_gene]),", "map(tex.escape, syntenies[root_gene.up]),", "LABEL-SOURCE"),
    M("kahn-queue-nonzero", TOPO, "            if indeg[node_to] == 0:\n                starts.append(node_to)", "            if indeg[node_to] <= 1:\n                starts.append(node_to)", "KAHN-LOOP"),
    M("kahn-emit-successor", TOPO, "        result.append(node_from)\n\n        for node_to in graph[node_from]:\n            indeg[node_to] -= 1\n", "        for node_to in graph[node_from]:\n            indeg[node_to] -= 1\n            result.append(node_to)\n", "KAHN-LOOP"),
    T("twin-kahn-pop-right", TOPO, "node_from = starts.popleft()", "node_from = starts.pop()"),
]

VARIANTS += [
    M("exh-skip-root", EXH, "        while parent_species is not None:", "        while parent_species.up is not None:", "ENUM-PLACEMENTS"),
    M("exh-transfer-test-swapped", EXH, "            if species_lca.is_ancestor_of(other_target, transfer_target):", "            if species_lca.is_ancestor_of(transfer_target, other_target):", "ENUM-PLACEMENTS"),
    M("exh-transfer-includes-lca", EXH, "            while transfer_species != lca:", "            while transfer_species != lca.up:", "ENUM-PLACEMENTS"),
    M("exh-transfer-one-side", EXH, "            (left_species, right_species),\n            (right_species, left_species),\n", "            (left_species, right_species),\n", "ENUM-PLACEMENTS"),
    M("exh-transfer-no-test", EXH, "            if species_lca.is_ancestor_of(other_target, transfer_target):\n                continue\n", "", "ENUM-PLACEMENTS"),
    T("twin-exh-comparable-test", EXH, "            if species_lca.is_ancestor_of(other_target, transfer_target):", "            if species_lca.is_comparable(other_target, transfer_target):"),
]
# ---- fourth round: rules derived from the mutation sweep and the fourth batch of seeded changes
VARIANTS += [
    Variant("twin-losses-for-ancestors-correct", LAYOUT, [
        ("    prev_species = start_species\n    start_species = start_species.up\n\n    while start_species != end_species:\n", "    prev_species = start_species\n\n    for start_species in prev_species.iter_ancestors():\n        if start_species == end_species:\n            break\n\n"),
        ("        prev_gene = cur_gene\n        prev_species = start_species\n        start_species = start_species.up\n", "        prev_gene = cur_gene\n        prev_species = start_species\n"),
    ], (), twin=True, note="the walk up the species tree written as a for loop over the ancestors, with the carried update kept"),
    T("twin-thl-skip-infinite-subcost", REC, "        if species_lca.is_ancestor_of(root_species, other_species):\n            conserv_loss", "        if table[left_node][other_species].is_infinite() and table[right_node][other_species].is_infinite():\n            continue\n\n        if species_lca.is_ancestor_of(root_species, other_species):\n            conserv_loss"),
    Variant("twin-thl-combinator-factory", REC, [
        ("    def dup_combinator(left, right):\n        return Candidate(\n            dup_cost + left.value + right.value,\n            MappingInfo(left.info, right.info),\n        )\n",
         "    def make_combinator(event_cost):\n        return lambda left, right: Candidate(\n            event_cost + left.value + right.value,\n            MappingInfo(left.info, right.info),\n        )\n\n    dup_combinator = make_combinator(dup_cost)\n"),
        ("    def hgt_combinator(left, right):\n        return Candidate(\n            hgt_cost + left.value + right.value,\n            MappingInfo(left.info, right.info),\n        )\n",
         "    hgt_combinator = make_combinator(hgt_cost)\n"),
    ], (), twin=True, note="combinators built by a local factory, wired correctly"),
    Variant("thl-combinator-factory-miswired", REC, [
        ("    def dup_combinator(left, right):\n        return Candidate(\n            dup_cost + left.value + right.value,\n            MappingInfo(left.info, right.info),\n        )\n",
         "    def make_combinator(event_cost):\n        return lambda left, right: Candidate(\n            event_cost + left.value + right.value,\n            MappingInfo(left.info, right.info),\n        )\n\n    dup_combinator = make_combinator(dup_cost)\n"),
        ("    def hgt_combinator(left, right):\n        return Candidate(\n            hgt_cost + left.value + right.value,\n            MappingInfo(left.info, right.info),\n        )\n",
         "    hgt_combinator = make_combinator(dup_cost)\n"),
    ], ("EVENT-SIG", "COSTKEYS")),
    M("thl-dup-combinator-rejects-separated", REC, "    def dup_combinator(left, right):\n        return Candidate(", "    def dup_combinator(left, right):\n        if not species_lca.is_comparable(left.info, right.info):\n            return Candidate(inf)\n\n        return Candidate(", "COMBINATOR-TOTAL"),
    M("dset-find-path-halving-chained", DSET, "        if self.parent[element] == element:\n            return element\n\n        self.parent[element] = self.find(self.parent[element])\n        return self.parent[element]",
      "        while self.parent[element] != element:\n            element = self.parent[element] = self.parent[self.parent[element]]\n\n        return element", "CHAINED-ASSIGN-ORDER"),
    M("triples-one-per-cherry", TREES, "        triples.update(tree_triples)\n", "        for triple in tree_triples:\n            if not any(t[:2] == triple[:2] for t in triples):\n                triples.add(triple)\n", "TRIPLES-SOURCE"),
    M("proxy-update-gate-min", DP, "        if any(not (is_infinite(candidate.value)) for candidate in candidates):", "        if candidates and not is_infinite(min(candidate.value for candidate in candidates)):", "PROXY-UPDATE-GATE"),
    M("layout-wrap-then-escape", LAYOUT, "                format_synteny(\n                    map(tex.escape, syntenies[root_gene]),\n                    params.event_label_width,\n                ).replace", "                tex.escape(format_synteny(\n                    syntenies[root_gene],\n                    params.event_label_width,\n                )).replace", "WRAP-AFTER-ESCAPE", "ESCAPE-TAINT"),
    M("tikz-transfer-connector-child-colour", TIKZ, "                rf\"\"\"\\path[branch={{{get_color(branch.color)}}}] ({\n                    layout.branches[left_gene].anchor_parent : {MAX_DIGITS}\n                }) |- ({", "                rf\"\"\"\\path[branch={{{get_color(layout.branches[left_gene].color)}}}] ({\n                    layout.branches[left_gene].anchor_parent : {MAX_DIGITS}\n                }) |- ({", "DRAW-COLOR-OWN"),
    M("topo-all-permutation-shortcut", TOPO, "    results = []\n\n    for node_from in starts:\n        next_starts = set(starts)", "    if len(starts) == len(graph):\n        return [list(p) for p in __import__(\"itertools\").permutations(starts)]\n\n    results = []\n\n    for node_from in starts:\n        next_starts = set(starts)", "ENUM-NO-TRUNCATION"),
    M("model-syntenies-to-sets", MODEL, "            \"syntenies\": parse_synteny_mapping(\n                parent[\"input\"].object_tree,\n                data[\"syntenies\"],\n            ),", "            \"syntenies\": {node: set(syn) for node, syn in parse_synteny_mapping(\n                parent[\"input\"].object_tree,\n                data[\"syntenies\"],\n            ).items()},", "FIELD-SOURCE"),
    M("layout-hgt-remove-before-losses", LAYOUT, "                    conserv_gene = _add_losses(\n                        layout_state,\n                        conserv_gene,\n                        mapping[conserv_gene],\n                        root_species.up,\n                    )\n\n                    state[\"anchor_nodes\"].add(root_gene)\n                    state[\"anchor_nodes\"].remove(conserv_gene)",
      "                    state[\"anchor_nodes\"].add(root_gene)\n                    state[\"anchor_nodes\"].discard(conserv_gene)\n                    conserv_gene = _add_losses(\n                        layout_state,\n                        conserv_gene,\n                        mapping[conserv_gene],\n                        root_species.up,\n                    )\n", "ANCHOR-SET"),
    M("dset-binary-order-test-flipped", DSET, "            elif second is None or groups[0] < second:", "            elif second is None or groups[0] > second:", "BINARY-COARSENINGS"),
    M("dset-binary-one-block-returns-itself", DSET, "            if not groups:\n                if first is None or second is None:\n                    return []", "            if not groups:\n                if first is None and second is None:\n                    return []", "BINARY-COARSENINGS"),
    M("dset-binary-no-symmetry-break", DSET, "            elif first is None or groups[0] > first:", "            elif True:", "BINARY-COARSENINGS"),
    T("twin-dset-binary-unite-args", DSET, "                part_1.unite(first, groups[0])", "                part_1.unite(groups[0], first)"),
    M("lca-index-on-nodes", TREES, "                self.traversal_index[node] = i\n", "                self.traversal_index[node] = i\n                node.add_feature(\"tour_index\", i)\n", "PRIVATE-INDEX"),
    M("triples-two-passes", TREES, "    for tree in trees:\n        tree_leaves, tree_triples = tree_to_triples(tree)\n        leaves.update(tree_leaves)\n        triples.update(tree_triples)\n",
      "    for tree in trees:\n        leaves.update(tree_to_triples(tree)[0])\n\n    for tree in trees:\n        triples.update(tree_to_triples(tree)[1])\n", "ITERABLE-ONCE", "LEAVES-SOURCE"),
    T("twin-triples-materialised", TREES, "    leaves = set()\n    triples = set()\n\n    for tree in trees:", "    trees = list(trees)\n    leaves = set()\n    triples = set()\n\n    for tree in trees:"),
    M("spfs-candidate-loop-break", SPFS, "                if conserv_segments < 0:\n                    # Not a subsequence of the parent synteny\n                    continue\n",
      "                if conserv_segments < 0:\n                    # Not a subsequence of the parent synteny\n                    break\n", "ENUM-NO-TRUNCATION"),
    M("thl-skip-dup-when-speciation-found", REC, "                _compute_thl_try_duplication_transfer(\n                    rec_input.species_lca,",
      "                if not table[root_node][root_species].is_infinite():\n                    continue\n\n                _compute_thl_try_duplication_transfer(\n                    rec_input.species_lca,", "CANDIDATE-GUARDS"),
    M("model-label-names-from-leaves", MODEL, "                while f\"O{next_object}\" in self.object_tree:", "                while f\"O{next_object}\" in {node.name for node in self.object_tree}:", "TREE-ITER-EXPLICIT", "LABEL-GUARD"),
    M("uspfs-recipients-leaves-only", USPFS, "        for desc_species in species_lca.tree.traverse():", "        for desc_species in species_lca.tree:", "TREE-ITER-EXPLICIT"),
    M("layout-escape-in-place", LAYOUT, "    # Propagate color feature downwards in the tree",
      "    for root_gene in list(syntenies):\n        syntenies[root_gene] = [tex.escape(family) for family in syntenies[root_gene]]\n\n    # Propagate color feature downwards in the tree", "READONLY-INPUT"),
    M("layout-synteny-species-width", LAYOUT, "                    params.event_label_width,\n                ).replace", "                    params.species_label_width,\n                ).replace", "WIDTH-VERBATIM"),
    M("model-mapping-overridden-by-names", MODEL, "        if \"costs\" in data:\n            costs = {}",
      "        if \"leaf_object_species\" in data:\n            leaf_object_species.update(get_species_mapping(object_tree, species_tree))\n\n        if \"costs\" in data:\n            costs = {}", "FIELD-SOURCE"),
    M("thl-decode-grow-left-mapping", REC, "            yield ReconciliationOutput(\n                rec_input,\n                {\n                    root_object: root_species,\n                    **map_left.object_species,\n                    **map_right.object_species,\n                },\n            )\n\n\ndef reconcile_thl",
      "            merged = map_left.object_species\n            merged.update(map_right.object_species)\n            merged[root_object] = root_species\n            yield ReconciliationOutput(rec_input, merged)\n\n\ndef reconcile_thl", "READONLY-DECODE"),
    M("segdist-start-from-root-bit", "utils/subsequences.py", "    in_segm = not edges\n", "    in_segm = not edges and bool(parent & ~child & 1)\n", "SEGMENT-MACHINE"),
    M("cli-cost-truncated", CLI, "    return eval(cost)  # pylint: disable=eval-used", "    return int(float(eval(cost)))  # pylint: disable=eval-used", "COST-NO-ROUNDING"),
    M("uspfs-gain-first-last", USPFS, "        result[object_lca(*leaves)].add(family)", "        result[object_lca(sorted(leaves, key=id)[0], sorted(leaves, key=id)[-1])].add(family)", "GAIN-AT-LCA"),
    M("uspfs-gain-sets-before-loop", USPFS, "        srec_input_bin.label_internal()\n        gain_sets = _compute_gain_sets(srec_input_bin)", "        srec_input_bin.label_internal()\n        gain_sets = _compute_gain_sets(srec_input)", "STALE-INPUT"),
    M("triples-generic-deepcopy", TREES, "    leaves = [leaf.name for leaf in tree.get_leaves()]\n    tree = tree.copy()", "    leaves = [leaf.name for leaf in tree.get_leaves()]\n    tree = deepcopy(tree)", "COPY-FAITHFUL"),
    M("model-output-hash-insertion-order", MODEL, "                tuple(sorted(serialize_tree_mapping(self.object_species).items())),", "                tuple(serialize_tree_mapping(self.object_species).items()),", "HASH-CANONICAL"),
    M("topo-all-sorted-starts", TOPO, "    for node_from in starts:\n        next_starts = set(starts)", "    for node_from in sorted(starts):\n        next_starts = set(starts)", "NODE-OPAQUE"),
    M("entry-update-preselect", DP, "        for candidate in candidates:\n            value = candidate.value", "        if is_any:\n            candidates = candidates[:1]\n\n        for candidate in candidates:\n            value = candidate.value", "UPDATE-ALL-CANDIDATES"),
    T("twin-entry-update-materialise", DP, "        for candidate in candidates:\n            value = candidate.value", "        candidates = list(candidates)\n\n        for candidate in candidates:\n            value = candidate.value"),
    M("spfs-non-root-complete-only", SPFS, "        allowed_species=lambda species, _: species.traverse(\"postorder\"),\n        allowed_syntenies=lambda ordering, obj: (\n            (subseq_complete(ordering),)\n            if obj == srec_input.object_tree",
      "        allowed_species=lambda species, _: species.traverse(\"postorder\"),\n        allowed_syntenies=lambda ordering, obj: (\n            (subseq_complete(ordering),)\n            if obj != srec_input.object_tree", "MASK-RANGE"),
    M("layout-pseudogene-by-species", "render/model.py", "class PseudoGene:  # pylint:disable=too-few-public-methods", "@dataclass(frozen=True)\nclass PseudoGene:  # pylint:disable=too-few-public-methods", "IDENTITY-KEYS"),
    M("thl-speciation-only-at-covering-species", REC, "                if not root_species.is_leaf():\n                    _compute_thl_try_speciation(",
      "                if not root_species.is_leaf() and root_species == rec_input.species_lca(*(rec_input.leaf_object_species[leaf] for leaf in root_node.iter_leaves())):\n                    _compute_thl_try_speciation(", "CANDIDATE-GUARDS"),
    M("spfs-skip-empty-looking-syntenies", SPFS, "                if conserv_segments < 0:\n                    # Not a subsequence of the parent synteny\n                    continue\n",
      "                if conserv_segments < 0:\n                    # Not a subsequence of the parent synteny\n                    continue\n\n                if child_synteny & (child_synteny - 1) == 0:\n                    continue\n", "CANDIDATE-GUARDS"),
    T("twin-thl-internal-species-local", REC, "                if not root_species.is_leaf():\n                    _compute_thl_try_speciation(",
      "                is_internal = not root_species.is_leaf()\n\n                if is_internal:\n                    _compute_thl_try_speciation("),
    M("tikz-loss-keep-other-layout", TIKZ, "                keep_pos = left_layout.anchors[left_gene]", "                keep_pos = right_layout.anchors[left_gene]", "DRAW-ANCHOR-SIDES"),
    M("tikz-loss-keep-none-gene", TIKZ, "                keep_pos = right_layout.anchors[right_gene]", "                keep_pos = right_layout.anchors[left_gene]", "DRAW-ANCHOR-SIDES"),
    M("tikz-loss-test-other-side", TIKZ, "            if right_gene is None:", "            if left_gene is None:", "DRAW-ANCHOR-SIDES"),
    M("tikz-child-layouts-swapped", TIKZ, "            left_layout = layout[left]\n            right_layout = layout[right]", "            left_layout = layout[right]\n            right_layout = layout[left]", "DRAW-ANCHOR-SIDES"),
    M("tikz-foreign-home-of-conserved", TIKZ, "            foreign_layout = all_layouts[mapping[right_gene]]", "            foreign_layout = all_layouts[mapping[left_gene]]", "DRAW-ANCHOR-SIDES"),
    M("tikz-anchor-unguarded", TIKZ, "        if root_gene in layout.anchors:", "        if branch.kind != NodeEvent.LEAF:", "DRAW-ANCHOR-SIDES"),
    T("twin-tikz-loss-test-not-none", TIKZ, "            if right_gene is None:\n                assert left_layout is not None\n                keep_pos = left_layout.anchors[left_gene]",
      "            if left_gene is not None:\n                assert left_layout is not None\n                keep_pos = left_layout.anchors[left_gene]",
      note="exactly one side of a loss branch is set (LOSS-WALK)"),
    M("subtrees-right-offset-no-left-width", LAYOUT, "                state[\"right_pos\"] = Position(\n                    left_info[\"size\"].w + subtree_spacing,", "                state[\"right_pos\"] = Position(\n                    subtree_spacing,", "SUBTREE-BOX", "SIGMA-INVARIANCE"),
    M("subtrees-left-offset-other-height", LAYOUT, "                    0,\n                    subtree_span - left_info[\"size\"].h,", "                    0,\n                    subtree_span - right_info[\"size\"].h,", "SUBTREE-BOX", "SIGMA-INVARIANCE"),
    M("subtrees-span-min", LAYOUT, "                    max(left_info[\"size\"].h, right_info[\"size\"].h) + trunk_height", "                    min(left_info[\"size\"].h, right_info[\"size\"].h) + trunk_height", "SUBTREE-BOX", "SIGMA-INVARIANCE"),
    M("subtrees-span-without-trunk", LAYOUT, "                    max(left_info[\"size\"].h, right_info[\"size\"].h) + trunk_height", "                    max(left_info[\"size\"].h, right_info[\"size\"].h)", "SUBTREE-BOX", "SIGMA-INVARIANCE"),
    M("subtrees-size-without-right", LAYOUT, "                    left_info[\"size\"].w + subtree_spacing + right_info[\"size\"].w,", "                    left_info[\"size\"].w + subtree_spacing,", "SUBTREE-BOX", "SIGMA-INVARIANCE"),
    Variant("subtrees-spacing-min-both", LAYOUT, [
        ("                subtree_spacing = max(\n                    trunk_width - (left_trunk_dist + right_trunk_dist),", "                subtree_spacing = min(\n                    trunk_width - (left_trunk_dist + right_trunk_dist),"),
        ("                subtree_spacing = max(\n                    trunk_height - (left_trunk_dist + right_trunk_dist),", "                subtree_spacing = min(\n                    trunk_height - (left_trunk_dist + right_trunk_dist),"),
    ], ("SUBTREE-BOX",), note="both orientations changed alike: sigma-symmetric, only the lemma sees it"),
    M("subtrees-offsets-swapped-at-placement", LAYOUT, "                position=this_rect.top_left() + this_layout[\"left_pos\"],", "                position=this_rect.top_left() + this_layout[\"right_pos\"],", "SUBTREE-BOX"),
    M("subtrees-size-of-sibling", LAYOUT, "                position=this_rect.top_left() + this_layout[\"left_pos\"],\n                size=layout_state[left_species][\"size\"],", "                position=this_rect.top_left() + this_layout[\"left_pos\"],\n                size=layout_state[right_species][\"size\"],", "SUBTREE-BOX"),
    Variant("twin-subtrees-spacing-arg-order", LAYOUT, [
        ("                subtree_spacing = max(\n                    trunk_width - (left_trunk_dist + right_trunk_dist),\n                    params.min_subtree_spacing,\n                )",
         "                subtree_spacing = max(\n                    params.min_subtree_spacing,\n                    trunk_width - (left_trunk_dist + right_trunk_dist),\n                )"),
        ("                subtree_spacing = max(\n                    trunk_height - (left_trunk_dist + right_trunk_dist),\n                    params.min_subtree_spacing,\n                )",
         "                subtree_spacing = max(\n                    params.min_subtree_spacing,\n                    trunk_height - (left_trunk_dist + right_trunk_dist),\n                )"),
    ], (), twin=True),
    M("cli-arity-negated", CLI, "    if len(params) == 1:", "    if len(params) != 1:", "CLI-FLOW-TABLE"),
    M("cli-empty-results-kept", CLI, "    if not results:\n        return None\n", "", "CLI-FLOW-TABLE"),
    M("cli-results-test-inverted", CLI, "    if not results:", "    if results:", "CLI-FLOW-TABLE"),
    M("cli-status-two", CLI, "    if results is None:\n        return 1", "    if results is None:\n        return 2", "CLI-FLOW-TABLE"),
    M("cli-no-newline", CLI, "        json.dump(result.to_dict(), args.output)\n        print(file=args.output)", "        json.dump(result.to_dict(), args.output)", "CLI-FLOW-TABLE"),
    M("cli-cost-on-stdout", CLI, "print(\"Minimum cost:\", results[0].cost(), file=sys.stderr)", "print(\"Minimum cost:\", results[0].cost(), file=args.output)", "CLI-FLOW-TABLE"),
    M("cli-none-test-inverted", CLI, "    if output is None:", "    if output is not None:", "CLI-FLOW-TABLE"),
    M("cli-policy-ignored", CLI, "            getattr(RetentionPolicy, args.solutions.upper()),", "            RetentionPolicy.ANY,", "CLI-FLOW-TABLE"),
    M("cli-super-algo-called-anyway", CLI, "            return None\n\n    if len(params) == 1:", "\n    if len(params) == 1:", "CLI-FLOW-TABLE", "ERROR-PATH"),
    T("twin-cli-status-local", CLI, "    if results is None:\n        return 1", "    if results is None:\n        status = 1\n        return status"),
    T("twin-cli-none-eq", CLI, "    if output is None:", "    if output == None:"),
    Variant("twin-segdist-count-on-close", "utils/subsequences.py", [
        ("    in_segm = not edges\n    dist = 0\n", "    in_segm = False\n    leading = not edges\n    dist = 0\n"),
        ("            if not bit_child:\n                if not in_segm:\n                    dist += 1\n                    in_segm = True\n            elif in_segm:\n                in_segm = False\n",
         "            if not bit_child:\n                in_segm = True\n            else:\n                if in_segm and not leading:\n                    dist += 1\n\n                in_segm = False\n                leading = False\n"),
        ("    if in_segm and not edges:\n        dist -= 1\n", "    if in_segm and edges:\n        dist += 1\n"),
    ], (), twin=True, note="a different transducer (runs counted when they close) with the same answers"),
    Variant("segdist-count-on-close-leading-forgotten", "utils/subsequences.py", [
        ("    in_segm = not edges\n    dist = 0\n", "    in_segm = False\n    dist = 0\n"),
        ("            if not bit_child:\n                if not in_segm:\n                    dist += 1\n                    in_segm = True\n            elif in_segm:\n                in_segm = False\n",
         "            if not bit_child:\n                in_segm = True\n            else:\n                if in_segm:\n                    dist += 1\n\n                in_segm = False\n"),
        ("    if in_segm and not edges:\n        dist -= 1\n", "    if in_segm and edges:\n        dist += 1\n"),
    ], ("SEGMENT-MACHINE",)),
    M("layout-dup-not-registered", LAYOUT, "                    state[\"anchor_nodes\"].add(root_gene)\n                    state[\"anchor_nodes\"].remove(left_gene)", "                    state[\"anchor_nodes\"].remove(left_gene)", "ANCHOR-SET"),
    M("layout-hgt-remove-foreign", LAYOUT, "state[\"anchor_nodes\"].remove(conserv_gene)", "state[\"anchor_nodes\"].remove(foreign_gene)", "ANCHOR-SET"),
    M("layout-spe-remove-child", LAYOUT, "                    state[\"anchor_nodes\"].add(root_gene)\n                    state[\"branches\"][root_gene] = {\n                        \"kind\": NodeEvent.SPECIATION,",
      "                    state[\"anchor_nodes\"].add(root_gene)\n                    state[\"anchor_nodes\"].discard(left_gene)\n                    state[\"branches\"][root_gene] = {\n                        \"kind\": NodeEvent.SPECIATION,", "ANCHOR-SET"),
    M("layout-leaf-registered-if-named", LAYOUT, "                state[\"anchor_nodes\"].add(root_gene)\n                state[\"branches\"][root_gene] = {\n                    \"kind\": NodeEvent.LEAF,",
      "                if name:\n                    state[\"anchor_nodes\"].add(root_gene)\n\n                state[\"branches\"][root_gene] = {\n                    \"kind\": NodeEvent.LEAF,", "ANCHOR-SET"),
    T("twin-layout-hgt-discard", LAYOUT, "state[\"anchor_nodes\"].remove(conserv_gene)", "state[\"anchor_nodes\"].discard(conserv_gene)"),
    M("losses-side-swapped", LAYOUT, "        is_left = prev_species == start_species.children[0]\n        is_right = prev_species == start_species.children[1]",
      "        is_left = prev_species == start_species.children[1]\n        is_right = prev_species == start_species.children[0]", "LOSS-WALK"),
    M("losses-side-hoisted", LAYOUT, "    while start_species != end_species:\n        is_left = prev_species == start_species.children[0]\n        is_right = prev_species == start_species.children[1]\n",
      "    is_left = prev_species == start_species.children[0]\n    is_right = prev_species == start_species.children[1]\n\n    while start_species != end_species:\n", "LOSS-WALK"),
    M("losses-prev-species-stale", LAYOUT, "        prev_gene = cur_gene\n        prev_species = start_species\n", "        prev_gene = cur_gene\n", "LOSS-WALK"),
    M("losses-anchor-dropped", LAYOUT, "        state[\"anchor_nodes\"].add(cur_gene)\n        state[\"branches\"][cur_gene] = {\n            \"kind\": EdgeEvent.FULL_LOSS,", "        state[\"branches\"][cur_gene] = {\n            \"kind\": EdgeEvent.FULL_LOSS,", "LOSS-WALK"),
    M("losses-state-of-child", LAYOUT, "        state = layout_state[start_species]\n        cur_gene = PseudoGene()", "        state = layout_state[prev_species]\n        cur_gene = PseudoGene()", "LOSS-WALK"),
    M("losses-stop-early", LAYOUT, "    while start_species != end_species:\n        is_left", "    while start_species.up != end_species:\n        is_left", "LOSS-WALK"),
    T("twin-losses-for-ancestors", LAYOUT, "    while start_species != end_species:\n        is_left = prev_species == start_species.children[0]",
      "    while start_species is not end_species:\n        is_left = prev_species == start_species.children[0]"),
    M("model-costs-guard-negated", MODEL, 'if "costs" in data:', 'if "costs" not in data:', "KEY-GUARD"),
    M("model-mapping-guard-negated", MODEL, 'if "leaf_object_species" in data:', 'if "leaf_object_species" not in data:', "KEY-GUARD"),
    T("twin-model-costs-guard-early-default", MODEL, '        if "costs" in data:\n            costs = {}\n',
      '        costs = {}\n\n        if "costs" in data:\n'),
    M("model-cost-name-wrong-enum", MODEL, "if hasattr(NodeEvent, event):", "if hasattr(EdgeEvent, event):", "COST-KEY-RESOLUTION"),
    M("model-cost-isinstance-negated", MODEL, "if isinstance(event, (NodeEvent, EdgeEvent)):", "if not isinstance(event, (NodeEvent, EdgeEvent)):", "COST-KEY-RESOLUTION"),
    M("model-cost-key-unresolved", MODEL, "event_enum = getattr(EdgeEvent, event)", "event_enum = event", "COST-KEY-RESOLUTION"),
    T("twin-model-cost-name-subscript", MODEL, "event_enum = getattr(NodeEvent, event)", "event_enum = NodeEvent[event]"),
    M("model-cost-int", MODEL, "                costs[event_enum] = value\n", "                value = int(value)\n                costs[event_enum] = value\n", "COST-PASSTHROUGH"),
    M("model-binarize-or", MODEL, "if is_binary(self.object_tree) and is_binary(self.species_lca.tree):", "if is_binary(self.object_tree) or is_binary(self.species_lca.tree):", "BINARIZE-GUARD"),
    M("model-binarize-product-swapped", MODEL, "            binarize(self.object_tree),\n            binarize(self.species_lca.tree),\n", "            binarize(self.species_lca.tree),\n            binarize(self.object_tree),\n", "BINARIZE-GUARD"),
    T("twin-model-binarize-conjuncts", MODEL, "if is_binary(self.object_tree) and is_binary(self.species_lca.tree):", "if is_binary(self.species_lca.tree) and is_binary(self.object_tree):"),
    Variant("spfs-output-unordered", SPFS, [("ordered=True", "ordered=False")], ("OUTPUT-FLAG",), every=True),
    Variant("uspfs-output-ordered", USPFS, [("ordered=False", "ordered=True")], ("OUTPUT-FLAG",), every=True),
    M("entry-ctor-policy-arms", DP, "merge_policy if merge_policy is not None else MergePolicy.MIN", "MergePolicy.MIN if merge_policy is not None else merge_policy", "ENTRY-CTOR"),
    M("entry-ctor-retention-arms", DP, "                retention_policy\n                if retention_policy is not None\n                else RetentionPolicy.NONE",
      "                RetentionPolicy.NONE\n                if retention_policy is not None\n                else retention_policy", "ENTRY-CTOR"),
    M("entry-ctor-short-policies-swapped", DP, "            self._merge_policy = value\n            self._retention_policy = infos", "            self._merge_policy = merge_policy\n            self._retention_policy = retention_policy", "ENTRY-CTOR"),
    T("twin-entry-ctor-test-order", DP, "            merge_policy is None\n            and retention_policy is None\n", "            retention_policy is None\n            and merge_policy is None\n"),
    M("topo-all-limit", TOPO, "    for node_from in starts:\n        next_starts = set(starts)", "    for node_from in starts:\n        if len(results) >= 10000:\n            break\n\n        next_starts = set(starts)", "ENUM-NO-TRUNCATION"),
    M("exh-dedupe-by-hash", EXH, "    for output in generate_all(rec_input):\n        results.update(Candidate(output.cost(), output))",
      "    seen = set()\n\n    for output in generate_all(rec_input):\n        if hash(output) in seen:\n            continue\n\n        seen.add(hash(output))\n        results.update(Candidate(output.cost(), output))", "HASH-IDENTITY"),
    M("thl-skip-transfers-by-cost", REC, "        elif not species_lca.is_ancestor_of(other_species, root_species):", "        elif hgt_cost <= dup_cost + 2 * loss_cost and not species_lca.is_ancestor_of(other_species, root_species):", "COST-GUARD"),
    M("triples-newick-copy", TREES, "    leaves = [leaf.name for leaf in tree.get_leaves()]\n    tree = tree.copy()", "    leaves = [leaf.name for leaf in tree.get_leaves()]\n    tree = tree.copy(\"newick\")", "COPY-FAITHFUL"),
    T("twin-triples-cpickle-copy", TREES, "    leaves = [leaf.name for leaf in tree.get_leaves()]\n    tree = tree.copy()", "    leaves = [leaf.name for leaf in tree.get_leaves()]\n    tree = tree.copy(\"cpickle\")"),
    M("synteny-width-widened", SYN, "        result = balanced_wrap(result, width)", "        width = max(width, 8)\n        result = balanced_wrap(result, width)", "WIDTH-VERBATIM"),
    M("synteny-width-computed", SYN, "        result = balanced_wrap(result, width)", "        result = balanced_wrap(result, width + 1)", "WIDTH-VERBATIM"),
    M("tikz-leaf-mapping", TIKZ, "            rec.object_species,\n", "            rec.input.leaf_object_species,\n", "LEAF-MAP-DOMAIN"),
    M("topo-none-unguarded", TOPO, "    if len(result) == len(graph):\n        return result\n\n    return None", "    if result:\n        return result\n\n    return None", "TOPO-VERDICT"),
    T("twin-topo-early-return", TOPO, "        result.append(node_from)\n", "        result.append(node_from)\n\n        if len(result) == len(graph):\n            return result\n"),
    T("twin-topo-verdict-else", TOPO, "    if len(result) == len(graph):\n        return result\n\n    return None", "    if len(result) != len(graph):\n        return None\n\n    return result"),
    M("spfs-root-order-sorted", SPFS, "            root_orderings = (leaf_syntenies[synteny_tree],)", "            root_orderings = (sorted(leaf_syntenies[synteny_tree]),)", "ROOT-ORDER-SOURCE"),
    T("twin-spfs-root-order-list", SPFS, "            root_orderings = (leaf_syntenies[synteny_tree],)", "            root_orderings = (list(leaf_syntenies[synteny_tree]),)"),
    M("graft-ignore-by-name", TREES, "tree.get_topology_id() not in ignore", "tree.name not in ignore", "NAME-AS-KEY"),
    M("arrange-ignore-by-name", TREES, "ignore=set(leaf.get_topology_id() for leaf in leaves[1:])", "ignore=set(leaf.name for leaf in leaves[1:])", "NAME-AS-KEY"),
    M("uspfs-lca-sets-unpack-synteny", USPFS, "                .difference(*(gain_sets[child] for child in object_node.children))",
      "                .difference(*gain_sets[object_node.children[0]], *gain_sets[object_node.children[1]])", "SET-ALGEBRA-ARGS"),
    M("synteny-sort-key-filtered", SYN, "        parts = DIGITS.split(obj)", "        parts = filter(None, DIGITS.split(obj))", "SORT-KEY-ALIGNED"),
    T("twin-synteny-sort-key-alias", SYN, "        parts = DIGITS.split(obj)", "        pieces = DIGITS.split(obj)\n        parts = pieces"),
    M("triples-lazy-group", TREES, "        group_triples = [\n            triple for triple in triples if all(leaf in group_leaves for leaf in triple)\n        ]",
      "        group_triples = (\n            triple for triple in triples if all(leaf in group_leaves for leaf in triple)\n        )", "ITERATOR-REUSE"),
    M("rmq-levels-short", RMQF, "levels = _ilog2(length) + 1", "levels = _ilog2(length - 1) + 1", "RMQ-WINDOWS"),
    M("rmq-levels-ceil-log", RMQF, "levels = _ilog2(length) + 1", "levels = max(1, (length - 1).bit_length())", "RMQ-WINDOWS"),
    T("twin-rmq-levels-bit-length", RMQF, "levels = _ilog2(length) + 1", "levels = length.bit_length()"),
    M("prec-graph-overwrite", SPFS, "            prec[gene_1].add(gene_2)", "            prec[gene_1] = {gene_2}", "GRAPH-KEYS"),
    Variant("layout-leaf-label-parent", LAYOUT, [
        ("                if root_gene in syntenies\n                else \"\"\n            )\n            equal_to_parent = syntenies.get(root_gene) == syntenies.get(root_gene.up)\n",
         "                if root_gene in syntenies and not equal_to_parent\n                else \"\"\n            )\n"),
        ("            synteny = (\n                format_synteny(", "            equal_to_parent = syntenies.get(root_gene) == syntenies.get(root_gene.up)\n            synteny = (\n                format_synteny("),
    ], ("LABEL-OMIT",)),
]
# the CLI twin needs a second edit (label in reconcile)
for _v in VARIANTS:
    if _v.name == "twin-cli-label-in-reconcile":
        _v.edits.append(("    rec_input = read_input(args)\n    results = call_algorithm(args, rec_input)",
                         "    rec_input = read_input(args)\n    rec_input.label_internal()\n    results = call_algorithm(args, rec_input)"))


# ---------------------------------------------------------------------------


def _baseline_keys(prog: Program, rule_names: Sequence[str]) -> Dict[str, set]:
    from . import props

    out = {}
    for name in rule_names:
        try:
            res = props.RULES[name](prog)
            out[name] = {f.construct for f in res.findings}
        except AnalysisError:
            out[name] = set()
    return out


def _evaluate(args):
    """Worker: run the rules on one variant. Returns a dict describing the outcome."""
    root, name, relpath, new_src, rule_scopes, baseline = args
    from . import props

    outcome = {"name": name, "fired": [], "errors": [], "new_findings": []}
    try:
        compile(new_src, relpath, "exec")
    except SyntaxError as err:
        outcome["errors"].append(f"variant does not compile: {err}")
        outcome["invalid"] = True
        return outcome
    try:
        prog = Program(root, {relpath: new_src})
    except AnalysisError as err:
        outcome["errors"].append(str(err))
        return outcome
    for rule, scope in rule_scopes:
        try:
            res = props.RULES[rule](prog)
        except AnalysisError as err:
            outcome["errors"].append(f"{rule}: {err}")
            continue
        except Exception as err:  # noqa: BLE001
            outcome["errors"].append(f"{rule}: analyser raised {type(err).__name__}: {err}")
            continue
        fresh = [f for f in res.findings if f.construct not in baseline.get(rule, set())]
        new = [f for f in fresh if props.in_scope(f.construct, scope)]
        if new:
            outcome["fired"].append(rule)
            outcome["new_findings"].extend(f"{f.rule} {f.construct}" for f in new[:3])
        elif fresh:
            outcome.setdefault("fired_out_of_scope", []).append(rule)
    return outcome


def run_selftest(prop_id: str, prog: Program, jobs: Optional[int] = None) -> Dict:
    from . import props
    from .__main__ import rule_list

    scoped = rule_list(prop_id)
    rule_names = [r for r, _s in scoped]
    baseline = {k: sorted(v) for k, v in _baseline_keys(prog, sorted(set(rule_names))).items()}
    baseline_sets = {k: set(v) for k, v in baseline.items()}
    tasks = []
    meta = {}
    inapplicable = []
    for var in VARIANTS:
        if var.twin:
            relevant = scoped
        else:
            relevant = [(r, s) for r, s in scoped if r in var.expect]
            if not relevant:
                continue
        mod = next((m for m in prog.modules.values() if m.relpath == var.relpath), None)
        if mod is None:
            inapplicable.append(var.name)
            continue
        new_src = var.apply(mod.src)
        if new_src is None:
            inapplicable.append(var.name)
            continue
        if var.twin:
            # a twin is only meaningful for a property whose rules look at that file at all
            pass
        tasks.append((prog.root, var.name, var.relpath, new_src, relevant, baseline_sets))
        meta[var.name] = var
    jobs = jobs or min(16, os.cpu_count() or 4)
    results = []
    if tasks:
        with ProcessPoolExecutor(max_workers=jobs) as pool:
            results = list(pool.map(_evaluate, tasks, chunksize=1))
    mutants = twins = flagged = silent = 0
    gaps: List[str] = []
    matrix = []
    for out in results:
        var = meta[out["name"]]
        if out.get("invalid"):
            inapplicable.append(var.name)
            continue
        if var.twin:
            twins += 1
            if out["fired"] or out["errors"]:
                gaps.append(
                    f"twin {var.name} ({var.relpath}) is behaviour-preserving but "
                    + (f"rules {out['fired']} fired: {out['new_findings']}" if out["fired"] else f"analysis failed: {out['errors'][:1]}")
                )
            else:
                silent += 1
            matrix.append({"variant": var.name, "kind": "twin", "file": var.relpath, "fired": out["fired"], "errors": out["errors"][:2]})
        else:
            if not out["fired"] and out.get("fired_out_of_scope"):
                # the edit breaks another property's part of the code: not a case for this property
                continue
            mutants += 1
            if out["fired"]:
                flagged += 1
            else:
                gaps.append(
                    f"mutant {var.name} ({var.relpath}) breaks the property but none of {list(var.expect)} fired"
                    + (f"; analysis errors: {out['errors'][:1]}" if out["errors"] else "")
                )
            matrix.append({"variant": var.name, "kind": "mutant", "file": var.relpath, "expected": list(var.expect), "fired": out["fired"], "findings": out["new_findings"][:2]})
    return {
        "mutants": mutants,
        "mutants_flagged": flagged,
        "twins": twins,
        "twins_silent": silent,
        "inapplicable": sorted(inapplicable),
        "gaps": gaps,
        "matrix": matrix,
        "rule": "mutants = small edits of the current source that break the property and still compile; "
        "twins = behaviour-preserving rewrites; analysed in memory, never executed",
    }


# ---------------------------------------------------------------------------
# canaries: a positive example per absence rule, evaluated on every run (quick tier included)

# rules that look for a forbidden construct whose count on a healthy tree is zero: without a positive example
# such a rule would pass vacuously forever if its pattern stopped matching
# ---- seventh round: clauses derived from the seventh batch of seeded changes
VARIANTS += [
    M("layout-max-of-sizes", LAYOUT, 'max(left_info["size"].h, right_info["size"].h) + trunk_height', 'max(left_info["size"], right_info["size"]).h + trunk_height', "GEOM-NO-ORDER", "SUBTREE-BOX"),
    T("twin-layout-max-height-sorted", LAYOUT, 'max(left_info["size"].h, right_info["size"].h) + trunk_height', 'sorted((left_info["size"].h, right_info["size"].h))[-1] + trunk_height'),
    M("edge-event-intenum", MODEL, "class EdgeEvent(Enum):", "class EdgeEvent(int, Enum):", "KIND-ENUM-BASE"),
    Variant("node-event-intenum", MODEL, [("from enum import Enum, auto", "from enum import Enum, IntEnum, auto"), ("class NodeEvent(Enum):", "class NodeEvent(IntEnum):")], ("KIND-ENUM-BASE",)),
    M("toposort-all-graph-rebound", TOPO, "    starts: Set[Node] = set(graph)\n    indeg: Dict[Node, int] = {node: 0 for node in graph}\n\n    for succs in graph.values():\n        for succ in succs:\n            starts.discard(succ)\n            indeg[succ] += 1\n\n    results = _toposort_all_bt(", "    graph = {node: {s for s in succs if s != node} for node, succs in graph.items()}\n    starts: Set[Node] = set(graph)\n    indeg: Dict[Node, int] = {node: 0 for node in graph}\n\n    for succs in graph.values():\n        for succ in succs:\n            starts.discard(succ)\n            indeg[succ] += 1\n\n    results = _toposort_all_bt(", "GRAPH-AS-GIVEN"),
    M("costrec-single-species-shortcut", MODEL, "        left_node, right_node = node.children\n        left_cost = self._cost_rec(left_node)", "        if len({rec[leaf] for leaf in node.iter_leaves()}) == 1:\n            return costs[NodeEvent.DUPLICATION] * (len(node) - 1)\n\n        left_node, right_node = node.children\n        left_cost = self._cost_rec(left_node)", "EVAL-NO-SHORTCUT"),
    T("twin-costrec-leaf-by-children", MODEL, "        if event == NodeEvent.LEAF:\n            return 0\n\n        left_node, right_node = node.children\n        left_cost = self._cost_rec(left_node)", "        if event == NodeEvent.LEAF or not node.children:\n            return 0\n\n        left_node, right_node = node.children\n        left_cost = self._cost_rec(left_node)"),
    M("update-tag-test-mixed", DP, "                if info and (is_all or (is_any and not self._infos)):", "                if info is not None and (is_all or (is_any and not self._infos)):", "TAG-TEST-CONSISTENT"),
    Variant("twin-update-tag-test-not-none-both", DP, [
        ("                if info and (is_all or (is_any and not self._infos)):", "                if info is not None and (is_all or (is_any and not self._infos)):"),
        ("                if info and (is_all or is_any):", "                if info is not None and (is_all or is_any):"),
    ], (), twin=True, note="both branches use the same notion of a tagged candidate"),
    M("segdist-parent-trimmed", SUBS, "    for _ in range(parent.bit_length()):\n        bit_child = child & 1", "    if not edges:\n        parent &= (1 << child.bit_length()) - 1\n\n    for _ in range(parent.bit_length()):\n        bit_child = child & 1", "SEGMENT-MACHINE"),
    M("unite-links-element", DSET, "            self.parent[rep_first] = rep_second", "            self.parent[first] = rep_second", "GROUPS-PAIRING"),
    Variant("twin-unite-roots-renamed", DSET, [("rep_first", "root_a"), ("rep_second", "root_b")], (), twin=True, every=True),
    M("from-dict-relabels", MODEL, "        return cls(**cls._from_dict(data))\n\n    def binarize", "        result = cls(**cls._from_dict(data))\n        result.label_internal()\n        return result\n\n    def binarize", "FIELD-SOURCE"),
    T("twin-from-dict-local", MODEL, "        return cls(**cls._from_dict(data))\n\n    def binarize", "        result = cls(**cls._from_dict(data))\n        return result\n\n    def binarize"),
    M("spfs-root-orders-filtered", SPFS, "            root_orderings = toposort_all(prec_graph)", "            root_orderings = toposort_all({gene: succs for gene, succs in prec_graph.items() if succs})", "ROOT-ORDER-SOURCE"),
    T("twin-spfs-root-orders-inline", SPFS, "            root_orderings = toposort_all(prec_graph)", "            root_orderings = toposort_all(_make_prec_graph(leaf_syntenies))"),
    M("layout-skip-species-above-root", LAYOUT, "        layout_state[root_species] = state\n\n        for root_gene in gene_tree.traverse(\"postorder\"):", "        layout_state[root_species] = state\n\n        if species_lca.is_strict_ancestor_of(root_species, mapping[gene_tree]):\n            continue\n\n        for root_gene in gene_tree.traverse(\"postorder\"):", "PLACED-IN-SPECIES"),
    M("lca-node-in-tree", REC, "            species = rec_input.leaf_object_species[node]\n", "            species = rec_input.leaf_object_species[node]\n            if species not in rec_input.species_lca.tree:\n                raise ValueError(species)\n", "TREE-ITER-EXPLICIT"),
    T("twin-label-internal-name-in-tree", MODEL, 'f"S{next_species}" in self.species_lca.tree', '"S" + str(next_species) in self.species_lca.tree'),
    M("spfs-decode-every-root-content", SPFS, "                            subseq_complete(root_ordering),\n                            srec_input_bin,", "                            next(iter(table[synteny_tree][root_species]), 0),\n                            srec_input_bin,", "ROOT-CONTENT"),
    Variant("twin-spfs-root-content-local", SPFS, [
        ("                results.update(\n                    *map(\n                        lambda output: Candidate(output.cost(), output),\n                        _decode_spfs_table(", "                full = subseq_complete(root_ordering)\n                results.update(\n                    *map(\n                        lambda output: Candidate(output.cost(), output),\n                        _decode_spfs_table("),
        ("                            subseq_complete(root_ordering),\n                            srec_input_bin,", "                            full,\n                            srec_input_bin,"),
    ], (), twin=True),
    M("uspfs-decode-root-gain", USPFS, "                        SyntenyAssignment.LCA,\n                        lca_sets[synteny_tree],", "                        SyntenyAssignment.GAIN,\n                        lca_sets[synteny_tree],", "ROOT-CONTENT"),
    M("aggregate-literal-policy", REC, "    min_lts = table.entry()", "    min_lts = Entry(MergePolicy.MIN, RetentionPolicy.ANY)", "POLICY-FLOW"),
    Variant("spfs-combinators-late-bound", SPFS, [
        ("    spe_comb = _make_event_combinator(costs[NodeEvent.SPECIATION])\n    dup_comb = _make_event_combinator(costs[NodeEvent.DUPLICATION])\n    hgt_comb = _make_event_combinator(costs[NodeEvent.HORIZONTAL_TRANSFER])\n",
         "    combs = {\n        event: lambda left, right: Candidate(\n            costs[event] + left.value + right.value,\n            ChildrenAssignment(left.info, right.info),\n        )\n        for event in (NodeEvent.SPECIATION, NodeEvent.DUPLICATION, NodeEvent.HORIZONTAL_TRANSFER)\n    }\n    spe_comb = combs[NodeEvent.SPECIATION]\n    dup_comb = combs[NodeEvent.DUPLICATION]\n    hgt_comb = combs[NodeEvent.HORIZONTAL_TRANSFER]\n"),
    ], ("CLOSURE-LATE-BINDING",)),
    Variant("twin-spfs-combinators-bound-by-default", SPFS, [
        ("    spe_comb = _make_event_combinator(costs[NodeEvent.SPECIATION])\n    dup_comb = _make_event_combinator(costs[NodeEvent.DUPLICATION])\n    hgt_comb = _make_event_combinator(costs[NodeEvent.HORIZONTAL_TRANSFER])\n",
         "    combs = {\n        event: _make_event_combinator(costs[event])\n        for event in (NodeEvent.SPECIATION, NodeEvent.DUPLICATION, NodeEvent.HORIZONTAL_TRANSFER)\n    }\n    spe_comb = combs[NodeEvent.SPECIATION]\n    dup_comb = combs[NodeEvent.DUPLICATION]\n    hgt_comb = combs[NodeEvent.HORIZONTAL_TRANSFER]\n"),
    ], (), twin=True, note="the factory binds each cost at creation"),
    Variant("binarize-pairs-leaves-by-position", MODEL, [
        ("                }\n            )\n            yield result\n", "                }\n            )\n            result.leaf_object_species = dict(zip(\n                result.object_tree.iter_leaves(),\n                (result.species_lca.tree & self.leaf_object_species[leaf].name for leaf in self.object_tree.iter_leaves()),\n            ))\n            yield result\n"),
    ], ("REFINEMENT-PAIRING",), note="leaf species re-keyed by position in the refinement"),
    Variant("from-dict-costs-in-place", MODEL, [
        ("            costs = {}\n\n            for event, value in data[\"costs\"].items():", "            costs = data[\"costs\"]\n\n            for event, value in list(costs.items()):"),
        ("                costs[event_enum] = value\n", "                del costs[event]\n                costs[event_enum] = value\n"),
    ], ("PARSE-READONLY",)),
    M("all-trees-constrained-leaves-only", TREES, "    return _all_trees_from_triples(leaves, triples)\n", "    return _all_trees_from_triples([leaf for leaf in leaves if any(leaf in triple for triple in triples)], triples)\n", "LEAVES-SOURCE"),
    T("twin-all-trees-leaves-listed", TREES, "    return _all_trees_from_triples(leaves, triples)\n", "    every = list(leaves)\n    return _all_trees_from_triples(every, triples)\n"),
    M("lca-strict-ancestor-through-parent", TREES, "        return self(first, second) == first and first != second", "        return second.up is not None and self.is_ancestor_of(first, second.up)", "DERIVED-QUERIES"),
    Variant("twin-loss-colour-passed-by-caller", LAYOUT, [
        ("    end_species: TreeNode,\n) -> GeneAnchor:", "    end_species: TreeNode,\n    color=None,\n) -> GeneAnchor:"),
        ("    color = getattr(gene, \"color\", None)\n", ""),
        ("                        mapping[left_gene],\n                        root_species,\n                    )", "                        mapping[left_gene],\n                        root_species,\n                        getattr(left_gene, \"color\", None),\n                    )"),
        ("                        mapping[right_gene],\n                        root_species,\n                    )", "                        mapping[right_gene],\n                        root_species,\n                        getattr(right_gene, \"color\", None),\n                    )"),
        ("                        mapping[left_gene],\n                        root_species.up,\n                    )", "                        mapping[left_gene],\n                        root_species.up,\n                        getattr(left_gene, \"color\", None),\n                    )"),
        ("                        mapping[right_gene],\n                        root_species.up,\n                    )", "                        mapping[right_gene],\n                        root_species.up,\n                        getattr(right_gene, \"color\", None),\n                    )"),
        ("                        mapping[conserv_gene],\n                        root_species.up,\n                    )", "                        mapping[conserv_gene],\n                        root_species.up,\n                        getattr(conserv_gene, \"color\", None),\n                    )"),
    ], (), twin=True, note="the caller reads the colour of the very gene it passes, at the call"),
    Variant("loss-colour-of-sibling", LAYOUT, [
        ("    end_species: TreeNode,\n) -> GeneAnchor:", "    end_species: TreeNode,\n    color=None,\n) -> GeneAnchor:"),
        ("    color = getattr(gene, \"color\", None)\n", ""),
        ("                        mapping[left_gene],\n                        root_species,\n                    )", "                        mapping[left_gene],\n                        root_species,\n                        getattr(right_gene, \"color\", None),\n                    )"),
        ("                        mapping[right_gene],\n                        root_species,\n                    )", "                        mapping[right_gene],\n                        root_species,\n                        getattr(right_gene, \"color\", None),\n                    )"),
        ("                        mapping[left_gene],\n                        root_species.up,\n                    )", "                        mapping[left_gene],\n                        root_species.up,\n                        getattr(left_gene, \"color\", None),\n                    )"),
        ("                        mapping[right_gene],\n                        root_species.up,\n                    )", "                        mapping[right_gene],\n                        root_species.up,\n                        getattr(right_gene, \"color\", None),\n                    )"),
        ("                        mapping[conserv_gene],\n                        root_species.up,\n                    )", "                        mapping[conserv_gene],\n                        root_species.up,\n                        getattr(conserv_gene, \"color\", None),\n                    )"),
    ], ("LOSS-COLOR-OWN",)),
    # ---- eighth round
    M("layout-empty-subtree-fork-unset", LAYOUT, "            # Empty subtree\n            fork_thickness = 0\n", "            # Empty subtree\n", "BRANCH-COMPLETE-ASSIGN"),
    T("twin-layout-fork-thickness-preset", LAYOUT, "            # Empty subtree\n            fork_thickness = 0\n", "            # Empty subtree\n            fork_thickness = 0\n            spare_eq = fork_thickness\n"),
    M("uspfs-kinds-parameter", USPFS, "    for kind in SyntenyAssignment:\n        table[root_object][root_species][kind].update(", "    for kind in [SyntenyAssignment.LCA] + ([SyntenyAssignment.INHERIT] if root_object.up is not None else []):\n        table[root_object][root_species][kind].update(", "KINDS-COMPLETE"),
    T("twin-uspfs-kinds-listed", USPFS, "    for kind in SyntenyAssignment:\n        table[root_object][root_species][kind].update(", "    for kind in list(SyntenyAssignment):\n        table[root_object][root_species][kind].update("),
    M("cli-json-strict", CLI, "        json.dump(result.to_dict(), args.output)", "        json.dump(result.to_dict(), args.output, allow_nan=False)", "JSON-INFINITE-COSTS"),
    T("twin-cli-json-allow-nan", CLI, "        json.dump(result.to_dict(), args.output)", "        json.dump(result.to_dict(), args.output, allow_nan=True)"),
    Variant("to-dict-ordered-only-when-true", MODEL, [
        ("        return {\n            **super().to_dict(),\n            \"syntenies\": serialize_synteny_mapping(self.syntenies),\n            \"ordered\": self.ordered,\n        }\n", "        result = {\n            **super().to_dict(),\n            \"syntenies\": serialize_synteny_mapping(self.syntenies),\n        }\n\n        if self.ordered:\n            result[\"ordered\"] = True\n\n        return result\n"),
    ], ("DICT-KEYS",)),
    Variant("twin-to-dict-ordered-only-when-false", MODEL, [
        ("        return {\n            **super().to_dict(),\n            \"syntenies\": serialize_synteny_mapping(self.syntenies),\n            \"ordered\": self.ordered,\n        }\n", "        result = {\n            **super().to_dict(),\n            \"syntenies\": serialize_synteny_mapping(self.syntenies),\n        }\n\n        if not self.ordered:\n            result[\"ordered\"] = False\n\n        return result\n"),
    ], (), twin=True, note="the reader's default (True) is what an absent key means"),
    M("spfs-root-hosts-above-lca", SPFS, "                srec_input_bin.species_lca.tree.traverse(),\n                desc=\"Generate solutions\",", "                [srec_input_bin.species_lca.tree],\n                desc=\"Generate solutions\",", "RESULT-SCOPE"),
    M("layout-trunk-dist-clamped", LAYOUT, "                left_trunk_dist = left_info[\"size\"].w - left_info[\"trunk\"].right().x\n", "                left_trunk_dist = max(0, left_info[\"size\"].w - left_info[\"trunk\"].right().x)\n", "SUBTREE-BOX", "SIGMA-INVARIANCE"),
    M("rmq-refuses-end-of-data", "utils/range_min_query.py", "        if start >= stop:\n            return None\n", "        if start >= stop or stop >= len(self.sparse_table[0]):\n            return None\n", "RMQ-WINDOWS"),
    T("twin-rmq-bounds-check-exact", "utils/range_min_query.py", "        if start >= stop:\n            return None\n", "        if start >= stop:\n            return None\n\n        if start < 0 or stop > len(self.sparse_table[0]):\n            raise IndexError(start, stop)\n"),
    M("lca-rmq-without-last", TREES, "RangeMinQuery(self.traversal)", "RangeMinQuery(self.traversal[:-1])", "EULER-INDEX"),
    M("mask-prefix-shortcut", SUBS, "    child_i = 0\n    mask = 0\n", "    if isinstance(parent, str) and parent.startswith(child):\n        return subseq_complete(child)\n\n    child_i = 0\n    mask = 0\n", "BIT-ORDER"),
    T("twin-mask-empty-child-shortcut", SUBS, "    child_i = 0\n    mask = 0\n", "    child_i = 0\n    mask = 0\n\n    if not child:\n        return mask\n"),
    M("binarize-collapses-zero-branches", TREES, "    subtrees = {}\n\n    for node in tree.traverse(\"postorder\"):\n        if node.is_leaf():\n            subtrees[node] = node", "    subtrees = {}\n    tree = tree.copy()\n\n    for node in tree.get_descendants():\n        if not node.is_leaf() and node.dist == 0:\n            node.delete()\n\n    for node in tree.traverse(\"postorder\"):\n        if node.is_leaf():\n            subtrees[node] = node", "TREE-AS-GIVEN"),
    M("onetree-effective-triples-only", TREES, "            triple for triple in triples if all(leaf in group_leaves for leaf in triple)\n        ]\n\n        subtree = tree_from_triples(", "            triple for triple in triples[1:] if all(leaf in group_leaves for leaf in triple)\n        ]\n\n        subtree = tree_from_triples(", "TRIPLES-RECURSION"),
    M("alltrees-cherry-count-screen", TREES, "    if tree_from_triples(leaves, triples) is None:\n        return []\n\n    return _all_trees_from_triples(", "    if len(leaves) > 2 and len({(l, r) for l, r, _ in triples}) >= len(leaves) - 1:\n        return []\n\n    if tree_from_triples(leaves, triples) is None:\n        return []\n\n    return _all_trees_from_triples(", "TRIPLES-RECURSION"),
    M("layout-root-lineage-losses", LAYOUT, "                state[\"branches\"][root_gene][\"color\"] = root_gene.color\n\n\ndef _layout_branches(", "                state[\"branches\"][root_gene][\"color\"] = root_gene.color\n\n    _add_losses(layout_state, gene_tree, mapping[gene_tree], None)\n\n\ndef _layout_branches(", "LOSS-MARKERS"),
    M("entry-ctor-resets-both-policies", DP, "            self._value = value\n            self._infos = set(infos)\n            self._merge_policy = (\n                merge_policy if merge_policy is not None else MergePolicy.MIN\n            )", "            if merge_policy is None or retention_policy is None:\n                merge_policy = MergePolicy.MIN\n                retention_policy = RetentionPolicy.NONE\n\n            self._value = value\n            self._infos = set(infos)\n            self._merge_policy = (\n                merge_policy if merge_policy is not None else MergePolicy.MIN\n            )", "ENTRY-CTOR"),
    M("evaluator-break-on-single-family", MODEL, "                event = self.node_event(node)\n                sub_mask = masks[node]\n", "                event = self.node_event(node)\n                sub_mask = masks[node]\n\n                if sub_mask & (sub_mask - 1) == 0:\n                    break\n", "EVAL-NO-SHORTCUT"),
    M("thl-cheaper-orientation-only", REC, "    table[root_node][root_species].update(\n        *min_ltl.combine(min_rtr, spe_combinator),\n        *min_ltr.combine(min_rtl, spe_combinator),\n    )", "    straight = min_ltl.combine(min_rtr, spe_combinator)\n    crossed = min_ltr.combine(min_rtl, spe_combinator)\n    table[root_node][root_species].update(\n        *(crossed if crossed.value() < straight.value() else straight)\n    )", "CANDIDATE-GUARDS"),
    M("from-dict-leaf-mapping-through-names", MODEL, "            leaf_object_species = parse_tree_mapping(\n                object_tree, species_tree, data[\"leaf_object_species\"]\n            )", "            leaf_object_species = get_species_mapping(object_tree, species_tree)\n            leaf_object_species.update(parse_tree_mapping(\n                object_tree, species_tree, dict(data[\"leaf_object_species\"])\n            ))", "FIELD-SOURCE"),
    M("spfs-prec-graph-maximal-leaves", SPFS, "            prec_graph = _make_prec_graph(leaf_syntenies)", "            prec_graph = _make_prec_graph({n: s for n, s in leaf_syntenies.items() if len(s) > 1})", "ROOT-ORDER-SOURCE"),
    M("tikz-layout-label-newlines-late", LAYOUT, "                ).replace(\"\\n\", \"\\\\\\\\\")\n                if root_gene in syntenies", "                )\n                if root_gene in syntenies", "LABEL-LINEBREAKS"),
    # ---- ninth round
    M("layout-leaf-name-split-left", LAYOUT, 'root_gene.name.rsplit("_", 1)', 'root_gene.name.split("_")', "UNPACK-SPLIT"),
    T("twin-layout-leaf-name-rsplit-kw", LAYOUT, 'root_gene.name.rsplit("_", 1)', 'root_gene.name.rsplit("_", maxsplit=1)'),
    M("tikz-get-color-validated", TIKZ, "        if html in colors:\n", "        if len(html) != 6:\n            html = \"000000\"\n\n        if html in colors:\n", "PARAM-NOT-REWRITTEN"),
    M("proxy-first-write-seeded", DP, "                entry[self._key[-1]] = self._parent.entry()\n", "                first, *candidates = candidates\n                entry[self._key[-1]] = self._parent.entry(first.value, [first.info] if first.info else [])\n", "VARARGS-AS-GIVEN"),
    M("cli-cost-options-crossed", CLI, '    EdgeEvent.FULL_LOSS: ("floss", "a full loss"),\n    EdgeEvent.SEGMENTAL_LOSS: ("sloss", "a segmental loss"),', '    EdgeEvent.FULL_LOSS: ("sloss", "a full loss"),\n    EdgeEvent.SEGMENTAL_LOSS: ("floss", "a segmental loss"),', "COST-OPTIONS"),
    M("model-cost-charges-root-depth", MODEL, "        return self._cost_rec(self.input.object_tree)", "        return self._cost_rec(self.input.object_tree) + self.input.costs[EdgeEvent.FULL_LOSS] * self.input.species_lca.level(self.object_species[self.input.object_tree])", "EVAL-NO-SHORTCUT"),
    T("twin-model-cost-root-local", MODEL, "        return self._cost_rec(self.input.object_tree)", "        root = self.input.object_tree\n        return self._cost_rec(root)"),
    M("prec-graph-dict-merge", SPFS, "            if gene_1 not in prec:\n                prec[gene_1] = set()\n            prec[gene_1].add(gene_2)\n", "            prec = {**prec, gene_1: {gene_2}}\n", "GRAPH-KEYS"),
    M("thl-root-hosts-filtered", REC, "    for root_species in rec_input.species_lca.tree.traverse():\n        results.update(", "    for root_species in rec_input.species_lca.tree.traverse():\n        if root_species.is_leaf():\n            continue\n\n        results.update(", "RESULT-SCOPE"),
    M("cli-eval-cost-literal", CLI, "    return eval(cost)  # pylint: disable=eval-used", "    import ast as _ast\n    return _ast.literal_eval(cost)", "COST-NO-ROUNDING"),
    Variant("binarize-species-shortcut-tests-object-tree", MODEL, [
        ("        for object_tree, species_tree in product(\n            binarize(self.object_tree),\n            binarize(self.species_lca.tree),\n        ):", "        object_trees = [self.object_tree] if is_binary(self.object_tree) else binarize(self.object_tree)\n        species_trees = [self.species_lca.tree] if is_binary(self.object_tree) else binarize(self.species_lca.tree)\n\n        for object_tree, species_tree in product(object_trees, species_trees):"),
    ], ("BINARIZE-GUARD",)),
    Variant("twin-binarize-per-tree-shortcut", MODEL, [
        ("        for object_tree, species_tree in product(\n            binarize(self.object_tree),\n            binarize(self.species_lca.tree),\n        ):", "        object_trees = [self.object_tree] if is_binary(self.object_tree) else binarize(self.object_tree)\n        species_trees = [self.species_lca.tree] if is_binary(self.species_lca.tree) else binarize(self.species_lca.tree)\n\n        for object_tree, species_tree in product(object_trees, species_trees):"),
    ], (), twin=True, note="a binary tree is its own single refinement"),
    M("parse-mapping-one-index-for-both-trees", TMAP, "    return {\n        from_tree & from_node: to_tree & to_node for from_node, to_node in data.items()\n    }", "    nodes = {node.name: node for tree in (from_tree, to_tree) for node in tree.traverse()}\n    return {nodes[from_node]: nodes[to_node] for from_node, to_node in data.items()}", "MAPPING-KEYING"),
    Variant("to-dict-costs-through-int-helper", MODEL, [
        ("Self = TypeVar(\"Self\", bound=\"ReconciliationInput\")\n", "def _plain_cost(value):\n    if isinstance(value, float) and value == int(value):\n        return int(value)\n    return value\n\n\nSelf = TypeVar(\"Self\", bound=\"ReconciliationInput\")\n"),
        ("            \"costs\": dict(((event.name, value) for event, value in self.costs.items())),", "            \"costs\": dict(((event.name, _plain_cost(value)) for event, value in self.costs.items())),"),
    ], ("COST-PASSTHROUGH",)),
    Variant("uspfs-sorts-leaf-syntenies-in-place", USPFS, [
        ("        srec_input_bin.label_internal()\n        gain_sets = _compute_gain_sets(srec_input_bin)", "        srec_input_bin.label_internal()\n\n        for leaf, synteny in srec_input_bin.leaf_syntenies.items():\n            srec_input_bin.leaf_syntenies[leaf] = sort_synteny(synteny)\n\n        gain_sets = _compute_gain_sets(srec_input_bin)"),
    ], ("READONLY-INPUT",)),
    Variant("layout-min-spacing-only-between-populated", LAYOUT, [
        ("                subtree_spacing = max(\n                    trunk_width - (left_trunk_dist + right_trunk_dist),\n                    params.min_subtree_spacing,\n                )", "                subtree_spacing = trunk_width - (left_trunk_dist + right_trunk_dist)\n\n                if left_info[\"branches\"] and right_info[\"branches\"]:\n                    subtree_spacing = max(subtree_spacing, params.min_subtree_spacing)"),
    ], ("SUBTREE-BOX", "SIGMA-INVARIANCE")),
    # ---- tenth round
    M("table-entry-drops-retention", DP, "        return Entry(\n            value,\n            infos,\n            self.merge_policy,\n            self.retention_policy,\n        )", "        return Entry(\n            value,\n            infos,\n            self.merge_policy,\n        )", "TABLE-ENTRY-POLICIES"),
    M("rmq-copy-of-data", "utils/range_min_query.py", "list(data)", "data.copy()", "PROTOCOL-ONLY"),
    M("supertree-shape-shortcut", TREES, "    return tree_from_triples(*trees_to_triples(trees))", "    trees = list(trees)\n\n    if len({tree.write(format=9) for tree in trees}) > 1 and len({frozenset(tree.get_leaf_names()) for tree in trees}) == 1:\n        return None\n\n    return tree_from_triples(*trees_to_triples(trees))", "SUPERTREE-DELEGATES"),
    T("twin-supertree-materialised", TREES, "    return tree_from_triples(*trees_to_triples(trees))", "    trees = list(trees)\n    return tree_from_triples(*trees_to_triples(trees))"),
    M("format-synteny-commas-after-wrap", SYN, "    result = \", \".join(sort_synteny(synteny) if isinstance(synteny, set) else synteny)\n\n    if width is not None:\n        result = balanced_wrap(result, width)\n\n    return result", "    families = sort_synteny(synteny) if isinstance(synteny, set) else synteny\n\n    if width is None:\n        return \", \".join(families)\n\n    lines = balanced_wrap(\" \".join(families), width).split(\"\\n\")\n    return \",\\n\".join(\", \".join(line.split(\" \")) for line in lines)", "WRAP-FINAL-TEXT"),
    M("costrec-speciation-reread-as-duplication", MODEL, "        if event == NodeEvent.SPECIATION:\n            return (\n                costs[NodeEvent.SPECIATION]", "        if event == NodeEvent.SPECIATION and costs[NodeEvent.DUPLICATION] < costs[NodeEvent.SPECIATION]:\n            event = NodeEvent.DUPLICATION\n\n        if event == NodeEvent.SPECIATION:\n            return (\n                costs[NodeEvent.SPECIATION]", "EVAL-NO-SHORTCUT"),
    Variant("thl-results-filtered", REC, [
        ("                _decode_thl_table(root_object, root_species, rec_input, table),\n            )\n        )\n\n    return results.infos()", "                filter(lambda output: len(output.object_species) > 2, _decode_thl_table(root_object, root_species, rec_input, table)),\n            )\n        )\n\n    return results.infos()"),
    ], ("RESULT-SCOPE",)),
    M("layout-state-registered-late", LAYOUT, "        layout_state[root_species] = state\n\n        for root_gene in gene_tree.traverse(\"postorder\"):", "        for root_gene in gene_tree.traverse(\"postorder\"):", "PLACED-IN-SPECIES", note="registration dropped altogether"),
    M("segdist-complete-parent-fast-path", SUBS, "    for _ in range(parent.bit_length()):\n        bit_child = child & 1", "    if parent == (1 << parent.bit_length()) - 1 and child == parent:\n        return 0\n\n    for _ in range(parent.bit_length()):\n        bit_child = child & 1", "SEGMENT-MACHINE"),
    Variant("thl-table-species-major", REC, [
        ("    for root_node in rec_input.object_tree.traverse(\"postorder\"):\n        if root_node.is_leaf():\n            root_species = rec_input.leaf_object_species[root_node]\n            table[root_node][root_species] = Candidate(0)\n        else:\n            for root_species in rec_input.species_lca.tree.traverse(\"postorder\"):\n",
         "    inner_eq = []\n\n    for root_node in rec_input.object_tree.traverse(\"postorder\"):\n        if root_node.is_leaf():\n            root_species = rec_input.leaf_object_species[root_node]\n            table[root_node][root_species] = Candidate(0)\n        else:\n            inner_eq.append(root_node)\n\n    for root_species in rec_input.species_lca.tree.traverse(\"postorder\"):\n        for root_node in inner_eq:\n            if True:\n"),
    ], ("FILL-OBJECT-MAJOR",)),
    M("edge-event-alias", MODEL, "    SEGMENTAL_LOSS = auto()", "    SEGMENTAL_LOSS = FULL_LOSS", "KIND-ENUM-BASE", note="an alias by assignment of another member"),
    M("update-returns-in-loop", DP, "                self._value = value\n\n    update.__doc__", "                self._value = value\n                return\n\n    update.__doc__", "UPDATE-ALL-CANDIDATES"),
    # ---- eleventh round
    M("update-none-retention-fast-path", DP, "        for candidate in candidates:\n            value = candidate.value\n            info = candidate.info\n\n            if self._value == value:", "        if not (is_any or is_all):\n            if candidates:\n                best = min(candidate.value for candidate in candidates)\n\n                if (is_min and self._value > best) or (is_max and self._value < best):\n                    self._value = best\n\n            return\n\n        for candidate in candidates:\n            value = candidate.value\n            info = candidate.info\n\n            if self._value == value:", "UPDATE-POLICY-SYMMETRIC"),
    M("proxy-update-setdefault", DP, "            if entry[self._key[-1]] is None:\n                entry[self._key[-1]] = self._parent.entry()\n\n            entry[self._key[-1]].update(*candidates)", "            real = entry.get(self._key[-1]) if isinstance(entry, dict) else entry[self._key[-1]]\n\n            if real is None:\n                real = self._parent.entry()\n                entry.setdefault(self._key[-1], real) if isinstance(entry, dict) else entry.__setitem__(self._key[-1], real)\n\n            real.update(*candidates)", "PROXY-CELL-STORE"),
    T("twin-proxy-update-local-cell", DP, "            if entry[self._key[-1]] is None:\n                entry[self._key[-1]] = self._parent.entry()\n\n            entry[self._key[-1]].update(*candidates)", "            last = self._key[-1]\n            real = entry[last]\n\n            if real is None:\n                real = entry[last] = self._parent.entry()\n\n            real.update(*candidates)"),
    M("lca-refuses-multifurcated-root", TREES, "        self.tree = tree\n        self.traversal = _euler_tour(tree)", "        if len(tree.children) > 2:\n            raise ValueError(\"unrooted tree\")\n\n        self.tree = tree\n        self.traversal = _euler_tour(tree)", "ANCESTRY-TOTAL"),
    M("dset-to-list-parent-links", "utils/disjoint_set.py", "            result[self.find(i)].append(i)", "            result[self.parent[self.parent[i]]].append(i)", "PARENT-ENCAPSULATED"),
    M("draw-skips-zero-length-stub", "render/tikz.py", "        if root_gene in layout.anchors:\n            layers[\"gene branches\"].append(", "        if root_gene in layout.anchors:\n            if branch.anchor_parent == layout.anchors[root_gene]:\n                continue\n\n            layers[\"gene branches\"].append(", "DRAW-NO-SKIP"),
    M("from-dict-syntenies-lazy-map", MODEL, "            \"syntenies\": parse_synteny_mapping(\n                parent[\"input\"].object_tree,\n                data[\"syntenies\"],\n            ),", "            \"syntenies\": {\n                node: map(str, synteny)\n                for node, synteny in parse_synteny_mapping(parent[\"input\"].object_tree, data[\"syntenies\"]).items()\n            },", "NO-LAZY-VALUES"),
    M("from-dict-normalises-colours", MODEL, "        species_tree = Tree(data[\"species_tree\"], format=1)\n\n        if \"leaf_object_species\" in data:", "        species_tree = Tree(data[\"species_tree\"], format=1)\n\n        for node in object_tree.traverse():\n            if hasattr(node, \"color\"):\n                node.color = node.color.lstrip(\"#\")\n\n        if \"leaf_object_species\" in data:", "FIELD-SOURCE"),
    M("node-event-reads-costs", MODEL, "        if species_lca.is_ancestor_of(\n            rec[node], rec[left_node]\n        ) and species_lca.is_ancestor_of(rec[node], rec[right_node]):", "        if is_infinite(self.input.costs[NodeEvent.HORIZONTAL_TRANSFER]) and not species_lca.is_ancestor_of(rec[node], rec[right_node]):\n            return NodeEvent.INVALID\n\n        if species_lca.is_ancestor_of(\n            rec[node], rec[left_node]\n        ) and species_lca.is_ancestor_of(rec[node], rec[right_node]):", "EVENT-TABLE"),
    M("cli-prints-cost-with-g-format", "cli/reconcile.py", "    print(\"Minimum cost:\", results[0].cost(), file=sys.stderr)", "    print(f\"Minimum cost: {results[0].cost():g}\", file=sys.stderr)", "CLI-COST-SOURCE"),
    T("twin-cli-prints-cost-fstring", "cli/reconcile.py", "    print(\"Minimum cost:\", results[0].cost(), file=sys.stderr)", "    print(f\"Minimum cost: {results[0].cost()}\", file=sys.stderr)"),
    Variant("twin-binarize-locals-for-trees", MODEL, [
        ("        if is_binary(self.object_tree) and is_binary(self.species_lca.tree):\n            yield self\n            return\n\n        for object_tree, species_tree in product(\n            binarize(self.object_tree),\n            binarize(self.species_lca.tree),\n        ):", "        object_root = self.object_tree\n        species_root = self.species_lca.tree\n\n        if is_binary(object_root) and is_binary(species_root):\n            yield self\n            return\n\n        for object_tree, species_tree in product(\n            binarize(object_root),\n            binarize(species_root),\n        ):"),
    ], (), twin=True, note="the two trees bound to locals first"),
    Variant("twin-spfs-masks-through-helper", SPFS, [
        ("\ndef sreconcile_base_spfs(", "\ndef _ancestral_syntenies(srec_input, ordering, obj):\n    if obj == srec_input.object_tree:\n        return (subseq_complete(ordering),)\n\n    return range(2 ** len(ordering))\n\n\ndef sreconcile_base_spfs("),
        ("        allowed_syntenies=lambda ordering, obj: (\n            (subseq_complete(ordering),)\n            if obj == srec_input.object_tree\n            else range(2 ** len(ordering))\n        ),\n    )\n\n\ndef sreconcile_extended_spfs", "        allowed_syntenies=lambda ordering, obj: _ancestral_syntenies(srec_input, ordering, obj),\n    )\n\n\ndef sreconcile_extended_spfs"),
    ], (), twin=True, note="mask enumeration in a helper (base solver only)"),
    Variant("spfs-masks-helper-filters-extant", SPFS, [
        ("\ndef sreconcile_base_spfs(", "\ndef _ancestral_syntenies(srec_input, ordering, obj):\n    if obj == srec_input.object_tree:\n        return (subseq_complete(ordering),)\n\n    extant = 0\n\n    for leaf in srec_input.object_tree.iter_leaves():\n        extant |= mask_from_subseq(srec_input.leaf_syntenies[leaf], ordering)\n\n    return [mask for mask in range(2 ** len(ordering)) if not mask & ~extant]\n\n\ndef sreconcile_base_spfs("),
        ("        allowed_syntenies=lambda ordering, obj: (\n            (subseq_complete(ordering),)\n            if obj == srec_input.object_tree\n            else range(2 ** len(ordering))\n        ),\n    )\n\n\ndef sreconcile_extended_spfs", "        allowed_syntenies=lambda ordering, obj: _ancestral_syntenies(srec_input, ordering, obj),\n    )\n\n\ndef sreconcile_extended_spfs"),
    ], ("MASK-RANGE",)),
]


CANARY_RULES = (
    "SOLVER-STATELESS", "MEMO-KEY", "ITERATOR-REUSE", "NO-PRUNED-TRAVERSAL", "COST-TRUTH", "FIELD-COPY-COMPLETE",
    "EQ-BY-FIELDS", "READONLY-INPUT", "READONLY-GRAPH", "READONLY-DECODE", "IDENTITY-KEYS", "EMPTY-RESULT-GUARD",
    "RECURSE-FORWARD", "COLOR-SOURCE", "ORDER-PRESERVED", "DISPATCH-KEYS", "COST-PASSTHROUGH", "PRUNE", "SENTINEL",
    "COPY-BEFORE-MUTATE", "FRESH-ATTACH", "FRESH-STARTS", "ESCAPE-TAINT", "PREORDER-STATE", "TABLE-FRESH-CELLS",
    "NONE-SENTINEL-TRUTH", "OPTIONAL-CHECKED", "NO-TOPOLOGY-WRITE", "ELEMENT-UPDATE", "RESULT-UNCONDITIONAL",
    "FIELD-SOURCE", "SORT-KEY-ALIGNED", "ENTRY-OWNS-TAGS",
    "FILL-OBJECT-MAJOR", "TABLE-ENTRY-POLICIES", "PROTOCOL-ONLY", "SUPERTREE-DELEGATES", "WRAP-FINAL-TEXT", "UNPACK-SPLIT", "PARAM-NOT-REWRITTEN", "VARARGS-AS-GIVEN", "KINDS-COMPLETE", "TREE-AS-GIVEN", "BRANCH-COMPLETE-ASSIGN", "TRIPLES-RECURSION", "JSON-INFINITE-COSTS", "LABEL-LINEBREAKS", "LOSS-COLOR-OWN",
    "PARSE-READONLY", "GEOM-NO-ORDER", "GRAPH-AS-GIVEN", "EVAL-NO-SHORTCUT", "CLOSURE-LATE-BINDING", "REFINEMENT-PAIRING", "KIND-ENUM-BASE", "TAG-TEST-CONSISTENT", "ROOT-CONTENT",
    "KEY-GUARD", "HASH-IDENTITY", "COST-GUARD", "COPY-FAITHFUL", "NAME-AS-KEY", "ENUM-NO-TRUNCATION", "SET-ALGEBRA-ARGS",
    "LEAF-MAP-DOMAIN", "WIDTH-VERBATIM", "TOPO-VERDICT", "ROOT-ORDER-SOURCE",
    "CANDIDATE-GUARDS", "TREE-ITER-EXPLICIT", "STALE-INPUT", "HASH-CANONICAL", "NODE-OPAQUE", "UPDATE-ALL-CANDIDATES",
    "UPDATE-POLICY-SYMMETRIC", "PROXY-CELL-STORE", "ANCESTRY-TOTAL", "PARENT-ENCAPSULATED", "DRAW-NO-SKIP", "NO-LAZY-VALUES",
    "COST-NO-ROUNDING", "MASK-RANGE", "GAIN-AT-LCA", "PRIVATE-INDEX", "ITERABLE-ONCE", "WRAP-AFTER-ESCAPE", "DRAW-COLOR-OWN", "PROXY-UPDATE-GATE", "CHAINED-ASSIGN-ORDER", "COMBINATOR-TOTAL",
)

MEMO_CANARY = Variant(
    "canary-memo-table", USPFS,
    [("    if root_kind == SyntenyAssignment.LCA:\n        ancestor_synteny = lca_sets[root_object]\n",
      "    if (root_object, root_species, root_kind) in _SEEN:\n        return _SEEN[(root_object, root_species, root_kind)]\n"
      "    _SEEN[(root_object, root_species, root_kind)] = sorted(ancestor_synteny or ())\n"
      "    if root_kind == SyntenyAssignment.LCA:\n        ancestor_synteny = lca_sets[root_object]\n"),
     ("def _decode_uspfs_table(", "_SEEN = {}\n\n\ndef _decode_uspfs_table(")],
    ("MEMO-KEY", "SOLVER-STATELESS"),
)
VARIANTS.append(MEMO_CANARY)


def run_canaries(rule_names: Sequence[str], prog: Program) -> List[str]:
    """For every absence rule in `rule_names`: the first applicable mutant that names the rule must make it
    fire. Returns error strings (empty when every canary sings)."""
    from . import props

    errors: List[str] = []
    done = set()
    for rule in rule_names:
        if rule not in CANARY_RULES or rule in done:
            continue
        done.add(rule)
        sang = False
        tried = 0
        for var in VARIANTS:
            if var.twin or rule not in var.expect:
                continue
            mod = next((m for m in prog.modules.values() if m.relpath == var.relpath), None)
            if mod is None:
                continue
            new_src = var.apply(mod.src)
            if new_src is None:
                continue
            try:
                compile(new_src, var.relpath, "exec")
            except SyntaxError:
                continue
            tried += 1
            try:
                res = props.RULES[rule](Program(prog.root, {**prog.overrides, var.relpath: new_src}))
            except AnalysisError:
                continue
            if res.findings:
                sang = True
                break
            if tried >= 3:
                break
        if not sang:
            errors.append(
                f"CANARY {rule}: no positive example fires "
                + ("(no mutant of the rule applies to the current source)" if tried == 0 else f"({tried} tried)")
            )
    return errors
