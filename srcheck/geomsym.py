"""Symbolic evaluation of geometry expressions (Position / Rect / Size of utils/geometry.py).

Every expression of the drawing code that denotes a point or a rectangle is reduced to polynomials in the
coordinates of *base* rectangles and points (``layout.trunk.x``, ``branch.rect.w``, ...) by interpreting the
method bodies of utils/geometry.py themselves (they are read from the analysed tree, not hard-coded).  The
transposition sigma then acts on values: the two components of a point are exchanged and every base atom
``r.x <-> r.y``, ``r.w <-> r.h`` is renamed.  Two code arms are orientation-symmetric when the values they leave
in the variables that are used afterwards are sigma-images of each other - this sees through intermediate
helpers that differ syntactically (a helper point of which only one coordinate is ever used).
"""
from __future__ import annotations

import ast
from dataclasses import dataclass
from fractions import Fraction
from typing import Dict, List, Optional, Sequence, Tuple, Union

from .core import AnalysisError, FuncNode, Program, dotted, func_params, short, walk_no_nested
from .flow import Opaque, reaching
from .sym import Normaliser, Poly

GEOM = "utils.geometry"


@dataclass(frozen=True)
class Pos:
    x: Poly
    y: Poly

    def __str__(self) -> str:
        return f"({self.x}, {self.y})"


@dataclass(frozen=True)
class RectV:
    x: Poly
    y: Poly
    w: Poly
    h: Poly


@dataclass(frozen=True)
class Tup:
    items: Tuple

    def __str__(self) -> str:
        return "(" + ", ".join(str(i) for i in self.items) + ")"


@dataclass(frozen=True)
class Str:
    value: str

    def __str__(self) -> str:
        return repr(self.value)


Value = Union[Pos, RectV, Tup, Str, Poly]

PATH_OPS = {"|-": "-|", "-|": "|-"}
SWAP_SUFFIX = {".x": ".y", ".y": ".x", ".w": ".h", ".h": ".w"}


class NotGeometric(Exception):
    pass


class GeoEval:
    def __init__(self, prog: Program, fn: ast.AST):
        self.prog = prog
        self.fn = fn
        self.norm = Normaliser()
        self.methods: Dict[str, Dict[str, ast.AST]] = {}
        for cname in ("Position", "Rect"):
            cls = prog.cls(GEOM, cname)
            self.methods[cname] = {m.name: m for m in cls.body if isinstance(m, FuncNode)}

    # -- bases ---------------------------------------------------------------
    def base_rect(self, expr: ast.AST) -> RectV:
        key = self.norm.text(expr, False)
        return RectV(*(Poly.atom(f"{key}.{c}") for c in "xywh"))

    def base_pos(self, expr: ast.AST) -> Pos:
        key = self.norm.text(expr, False)
        return Pos(Poly.atom(f"{key}.x"), Poly.atom(f"{key}.y"))

    # -- evaluation ----------------------------------------------------------
    def value(self, expr: ast.AST, env: Dict[str, Value], at: Optional[ast.AST] = None, depth: int = 0) -> Value:
        if depth > 20:
            raise AnalysisError("geometry: expression too deep")
        at = at if at is not None else expr
        if isinstance(expr, ast.Constant) and isinstance(expr.value, str):
            return Str(expr.value)
        if isinstance(expr, ast.Constant) and isinstance(expr.value, (int, float)) and not isinstance(expr.value, bool):
            return Poly.const(Fraction(expr.value).limit_denominator(10**9))
        if isinstance(expr, (ast.Tuple, ast.List)):
            return Tup(tuple(self.value(e, env, at, depth + 1) for e in expr.elts))
        if isinstance(expr, ast.Name):
            if expr.id in env:
                return env[expr.id]
            if hasattr(expr, "lineno"):
                val = reaching(self.fn, expr.id, expr)
                if val is not None and not isinstance(val, Opaque):
                    try:
                        return self.value(val, {}, val if hasattr(val, "lineno") else at, depth + 1)
                    except NotGeometric:
                        pass
            raise NotGeometric(expr.id)
        if isinstance(expr, ast.Subscript) and isinstance(expr.slice, ast.Constant) and isinstance(expr.slice.value, int):
            try:
                base = self.value(expr.value, env, at, depth + 1)
            except NotGeometric:
                raise NotGeometric(short(expr))
            if isinstance(base, Tup) and -len(base.items) <= expr.slice.value < len(base.items):
                return base.items[expr.slice.value]
            if isinstance(base, Pos) and expr.slice.value in (0, 1):
                return base.x if expr.slice.value == 0 else base.y
            raise NotGeometric(short(expr))
        if isinstance(expr, ast.Attribute) and expr.attr in ("x", "y", "w", "h"):
            base = self.geo(expr.value, env, at, depth + 1, prefer="pos" if expr.attr in ("x", "y") else "rect")
            if isinstance(base, (Pos, RectV)) and hasattr(base, expr.attr):
                return getattr(base, expr.attr)
            raise NotGeometric(short(expr))
        if isinstance(expr, ast.Call):
            name = dotted(expr.func)
            if name == "Position" and len(expr.args) == 2 and not expr.keywords:
                return Pos(self.scalar(expr.args[0], env, at, depth), self.scalar(expr.args[1], env, at, depth))
            if isinstance(expr.func, ast.Attribute):
                meth = expr.func.attr
                if meth in self.methods["Rect"] and meth not in self.methods["Position"]:
                    recv = self.geo(expr.func.value, env, at, depth + 1, prefer="rect")
                    if isinstance(recv, RectV):
                        return self.call_method("Rect", meth, recv, [self.value(a, env, at, depth + 1) for a in expr.args])
                if meth in self.methods["Position"] and meth not in ("__str__", "__format__"):
                    recv = self.geo(expr.func.value, env, at, depth + 1, prefer="pos")
                    if isinstance(recv, Pos):
                        return self.call_method("Position", meth, recv, [self.value(a, env, at, depth + 1) for a in expr.args])
            raise NotGeometric(short(expr))
        if isinstance(expr, ast.BinOp) and isinstance(expr.op, (ast.Add, ast.Sub)):
            try:
                left = self.value(expr.left, env, at, depth + 1)
            except NotGeometric:
                left = None
            if isinstance(left, (Pos, RectV)):
                right = self.value(expr.right, env, at, depth + 1)
                cname = "Position" if isinstance(left, Pos) else "Rect"
                return self.call_method(cname, "__add__" if isinstance(expr.op, ast.Add) else "__sub__", left, [right])
            return self.scalar(expr, env, at, depth)
        if isinstance(expr, (ast.BinOp, ast.UnaryOp)):
            return self.scalar(expr, env, at, depth)
        if isinstance(expr, ast.Attribute):
            # a scalar parameter such as params.species_leaf_spacing, layout.fork_thickness
            return Poly.atom(self.norm.text(expr, False))
        raise NotGeometric(short(expr))

    def geo(self, expr: ast.AST, env: Dict[str, Value], at: ast.AST, depth: int, prefer: str) -> Value:
        try:
            val = self.value(expr, env, at, depth)
            if isinstance(val, (Pos, RectV)):
                return val
        except NotGeometric:
            pass
        return self.base_pos(expr) if prefer == "pos" else self.base_rect(expr)

    def scalar(self, expr: ast.AST, env: Dict[str, Value], at: ast.AST, depth: int) -> Poly:
        outer = self

        def hook(node: ast.AST) -> Optional[str]:
            return None

        class N(Normaliser):
            def poly(self, node: ast.AST) -> Poly:  # type: ignore[override]
                if isinstance(node, (ast.Attribute, ast.Name, ast.Subscript, ast.Call)):
                    try:
                        val = outer.value(node, env, at, depth + 1)
                    except NotGeometric:
                        return Poly.atom(outer.norm.text(node, False))
                    if isinstance(val, Poly):
                        return val
                    return Poly.atom(outer.norm.text(node, False))
                return super().poly(node)

        del hook
        return N().poly(expr)

    def call_method(self, cname: str, meth: str, recv: Value, args: List[Value]) -> Value:
        fn = self.methods[cname][meth]
        params = [p for p in func_params(fn) if p != "self"]
        env: Dict[str, Value] = {"self": recv}
        for p, a in zip(params, args):
            env[p] = a
        rets = [r for r in walk_no_nested(fn) if isinstance(r, ast.Return) and r.value is not None]
        if len(rets) != 1:
            raise AnalysisError(f"geometry: {cname}.{meth} does not have a single return")
        return self.ctor(rets[0].value, env)

    def ctor(self, expr: ast.AST, env: Dict[str, Value]) -> Value:
        """Evaluate `Position(...)` / `Rect(...)` of a geometry method body under `env` (self, pos)."""
        if not isinstance(expr, ast.Call):
            raise AnalysisError(f"geometry: `{short(expr)}` is not a constructor call")
        name = dotted(expr.func)
        fields = {"Position": ("x", "y"), "Rect": ("x", "y", "w", "h")}.get(name or "")
        if fields is None:
            raise AnalysisError(f"geometry: `{short(expr)}` is not a constructor call")
        given: Dict[str, ast.AST] = {}
        for f, a in zip(fields, expr.args):
            given[f] = a
        for kw in expr.keywords:
            if kw.arg:
                given[kw.arg] = kw.value
        if set(given) != set(fields):
            raise AnalysisError(f"geometry: `{short(expr)}` does not give every field")
        comps = [self.body_scalar(given[f], env) for f in fields]
        return Pos(*comps) if name == "Position" else RectV(*comps)

    def body_scalar(self, expr: ast.AST, env: Dict[str, Value]) -> Poly:
        outer = self

        class N(Normaliser):
            def poly(self, node: ast.AST) -> Poly:  # type: ignore[override]
                if isinstance(node, ast.Attribute) and isinstance(node.value, ast.Name) and node.value.id in env:
                    base = env[node.value.id]
                    if isinstance(base, (Pos, RectV)) and hasattr(base, node.attr):
                        return getattr(base, node.attr)
                if isinstance(node, ast.Subscript) and isinstance(node.value, ast.Name) and node.value.id in env:
                    base = env[node.value.id]
                    if isinstance(node.slice, ast.Constant) and node.slice.value in (0, 1):
                        if isinstance(base, Pos):
                            return base.x if node.slice.value == 0 else base.y
                        if isinstance(base, Tup) and len(base.items) == 2 and all(isinstance(i, Poly) for i in base.items):
                            return base.items[node.slice.value]
                    raise AnalysisError(f"geometry: `{short(node)}` in a method body is not a coordinate of its argument")
                if isinstance(node, (ast.Name, ast.Attribute, ast.Subscript, ast.Call)):
                    raise AnalysisError(f"geometry: `{short(node)}` in a geometry method body is not understood")
                return super().poly(node)

        del outer
        return N().poly(expr)


# ---------------------------------------------------------------------------
# sigma on values


def _swap_atom(key: str) -> str:
    for suf, other in SWAP_SUFFIX.items():
        if key.endswith(suf):
            return key[: -len(suf)] + other
    return key


def sigma_poly(p: Poly) -> Poly:
    return p.rename(_swap_atom)


def sigma_value(v: Value) -> Value:
    if isinstance(v, Pos):
        return Pos(sigma_poly(v.y), sigma_poly(v.x))
    if isinstance(v, RectV):
        return RectV(sigma_poly(v.y), sigma_poly(v.x), sigma_poly(v.h), sigma_poly(v.w))
    if isinstance(v, Tup):
        return Tup(tuple(sigma_value(i) for i in v.items))
    if isinstance(v, Str):
        return Str(PATH_OPS.get(v.value, v.value))
    return sigma_poly(v)


def is_geometric(v: Value) -> bool:
    if isinstance(v, (Pos, RectV)):
        return True
    if isinstance(v, Str):
        return v.value in PATH_OPS
    if isinstance(v, Tup):
        return bool(v.items) and all(is_geometric(i) for i in v.items)
    return False


def arm_values(ge: GeoEval, stmts: Sequence[ast.stmt]) -> Optional[Dict[str, Value]]:
    """Values left in the variables assigned by a straight-line arm; None if the arm is not straight-line
    assignments of geometric values."""
    env: Dict[str, Value] = {}
    for st in stmts:
        if isinstance(st, ast.Assign) and len(st.targets) == 1 and isinstance(st.targets[0], ast.Name):
            try:
                env[st.targets[0].id] = ge.value(st.value, env, st)
            except NotGeometric:
                return None
        elif isinstance(st, ast.Expr) and isinstance(st.value, ast.Constant):
            continue
        else:
            return None
    return env
