"""Three-valued partial evaluation of guard expressions."""
from __future__ import annotations

import ast
from typing import Callable, List, Optional, Sequence, Tuple, Union

from .core import unparse

Oracle = Callable[[ast.AST], Optional[bool]]
Res = Union[bool, ast.AST]


def peval(expr: ast.AST, oracle: Oracle) -> Res:
    """Evaluate `expr` as far as `oracle` decides its leaves.

    Returns True / False or a residual expression (simplified).
    """
    known = oracle(expr)
    if known is not None:
        return known
    if isinstance(expr, ast.Constant) and isinstance(expr.value, bool):
        return expr.value
    if isinstance(expr, ast.UnaryOp) and isinstance(expr.op, ast.Not):
        inner = peval(expr.operand, oracle)
        if isinstance(inner, bool):
            return not inner
        return ast.UnaryOp(op=ast.Not(), operand=inner)
    if isinstance(expr, ast.BoolOp):
        is_and = isinstance(expr.op, ast.And)
        rest: List[ast.AST] = []
        for value in expr.values:
            res = peval(value, oracle)
            if isinstance(res, bool):
                if res != is_and:  # False in and / True in or: decides
                    return res
                continue
            rest.append(res)
        if not rest:
            return is_and
        if len(rest) == 1:
            return rest[0]
        return ast.BoolOp(op=expr.op, values=rest)
    if isinstance(expr, ast.IfExp):
        test = peval(expr.test, oracle)
        if isinstance(test, bool):
            return peval(expr.body if test else expr.orelse, oracle)
    return expr


def conjuncts(expr: Res) -> List[ast.AST]:
    if isinstance(expr, bool):
        return []
    if isinstance(expr, ast.BoolOp) and isinstance(expr.op, ast.And):
        out: List[ast.AST] = []
        for value in expr.values:
            out.extend(conjuncts(value))
        return out
    return [expr]


def conj_guards(guards: Sequence[Tuple[ast.AST, bool]], oracle: Oracle) -> Res:
    """Partial evaluation of a conjunction of (condition, polarity) guards."""
    rest: List[ast.AST] = []
    for test, pol in guards:
        res = peval(test, oracle)
        if isinstance(res, bool):
            if res != pol:
                return False
            continue
        rest.append(res if pol else ast.UnaryOp(op=ast.Not(), operand=res))
    if not rest:
        return True
    if len(rest) == 1:
        return rest[0]
    return ast.BoolOp(op=ast.And(), values=rest)


def show(res: Res) -> str:
    return str(res) if isinstance(res, bool) else unparse(res)
