"""Skeletons of string templates (f-strings, literals, concatenations)."""
from __future__ import annotations

import ast
import re
from dataclasses import dataclass
from typing import List, Optional, Tuple

HOLE = "\x00"


@dataclass
class Skeleton:
    text: str  # literal text with HOLE for every interpolation
    holes: List[ast.AST]  # interpolated expressions, in order

    def brace_profile(self) -> Tuple[int, int]:
        """(final depth, minimum prefix depth) of { } in the literal text."""
        depth = 0
        low = 0
        for ch in self.text:
            if ch == "{":
                depth += 1
            elif ch == "}":
                depth -= 1
                low = min(low, depth)
        return depth, low

    def stripped(self) -> str:
        return self.text.strip()

    def first_token(self) -> str:
        m = re.match(r"\s*(\\[A-Za-z]+|%|\S)", self.text)
        return m.group(1) if m else ""

    def last_char(self) -> str:
        s = self.text.rstrip()
        return s[-1] if s else ""


def skeleton(node: ast.AST) -> Optional[Skeleton]:
    """Skeleton of a string-valued expression built from literals, f-strings and `+`."""
    if isinstance(node, ast.Constant) and isinstance(node.value, str):
        return Skeleton(node.value, [])
    if isinstance(node, ast.JoinedStr):
        text = []
        holes: List[ast.AST] = []
        for part in node.values:
            if isinstance(part, ast.Constant) and isinstance(part.value, str):
                text.append(part.value)
            elif isinstance(part, ast.FormattedValue):
                text.append(HOLE)
                holes.append(part.value)
        return Skeleton("".join(text), holes)
    if isinstance(node, ast.BinOp) and isinstance(node.op, ast.Add):
        a, b = skeleton(node.left), skeleton(node.right)
        if a is None and b is None:
            return None
        if a is None:
            a = Skeleton(HOLE, [node.left])
        if b is None:
            b = Skeleton(HOLE, [node.right])
        return Skeleton(a.text + b.text, a.holes + b.holes)
    if isinstance(node, ast.Call) and isinstance(node.func, ast.Attribute):
        # textwrap.dedent(template).lstrip()/strip()/replace are shape-preserving for braces
        if node.func.attr in ("lstrip", "rstrip", "strip") and not node.args:
            return skeleton(node.func.value)
        if node.func.attr == "dedent" and len(node.args) == 1:
            return skeleton(node.args[0])
    return None


def tex_like(sk: Skeleton) -> bool:
    return "\\" in sk.text or "{" in sk.text or "}" in sk.text
