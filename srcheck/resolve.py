"""Name resolution, class facts and a class-hierarchy call graph."""
from __future__ import annotations

import ast
from typing import Dict, Iterable, List, Optional, Set, Tuple

from .core import AnalysisError, FuncNode, Module, Program, PACKAGE, dotted, walk_no_nested


def import_table(prog: Program, mod: Module) -> Dict[str, Tuple[str, Optional[str]]]:
    """local name -> (module dotted name, symbol or None for a module alias)."""
    key = ("import_table", mod.name)
    if key in prog.memo:
        return prog.memo[key]
    table: Dict[str, Tuple[str, Optional[str]]] = {}
    prog.memo[key] = table
    pkg_parts = mod.name.split(".")
    is_pkg = mod.relpath.endswith("__init__.py")
    for node in ast.walk(mod.tree):
        if isinstance(node, ast.ImportFrom):
            if node.level:
                base = pkg_parts if is_pkg else pkg_parts[:-1]
                base = base[: len(base) - (node.level - 1)] if node.level > 1 else base
                target = ".".join(base + (node.module.split(".") if node.module else []))
            else:
                target = node.module or ""
            for alias in node.names:
                local = alias.asname or alias.name
                sub = f"{target}.{alias.name}"
                if sub in prog.modules:
                    table[local] = (sub, None)
                else:
                    table[local] = (target, alias.name)
        elif isinstance(node, ast.Import):
            for alias in node.names:
                local = alias.asname or alias.name.split(".")[0]
                table[local] = (alias.name if alias.asname else alias.name.split(".")[0], None)
    return table


def resolve_name(prog: Program, mod: Module, name: str) -> Optional[Tuple[Module, ast.AST]]:
    """Resolve a module-level name to a definition inside the package."""
    defs = prog.defs(mod.name)
    if name in defs:
        return mod, defs[name]
    imp = import_table(prog, mod).get(name)
    if imp is None:
        return None
    target, symbol = imp
    if target not in prog.modules or symbol is None:
        return None
    tmod = prog.modules[target]
    if symbol in prog.defs(tmod.name):
        return tmod, prog.defs(tmod.name)[symbol]
    # re-export
    return resolve_name(prog, tmod, symbol)


def resolve_callee(prog: Program, mod: Module, func: ast.AST) -> Optional[Tuple[Module, ast.AST]]:
    """Resolve `f(...)` or `modalias.f(...)`."""
    if isinstance(func, ast.Name):
        return resolve_name(prog, mod, func.id)
    if isinstance(func, ast.Attribute) and isinstance(func.value, ast.Name):
        imp = import_table(prog, mod).get(func.value.id)
        if imp and imp[1] is None and imp[0] in prog.modules:
            tmod = prog.modules[imp[0]]
            node = prog.defs(tmod.name).get(func.attr)
            if node is not None:
                return tmod, node
        # Class.method / Class.attr
        res = resolve_name(prog, mod, func.value.id)
        if res and isinstance(res[1], ast.ClassDef):
            node = prog.defs(res[0].name).get(f"{res[1].name}.{func.attr}")
            if node is not None:
                return res[0], node
    return None


# ---------------------------------------------------------------------------
# class facts


def enum_members(cls: ast.ClassDef) -> List[str]:
    out = []
    for stmt in cls.body:
        if isinstance(stmt, ast.Assign) and len(stmt.targets) == 1 and isinstance(stmt.targets[0], ast.Name):
            out.append(stmt.targets[0].id)
    return out


def is_enum(cls: ast.ClassDef) -> bool:
    return any(dotted(b) in ("Enum", "enum.Enum", "IntEnum") for b in cls.bases)


def own_fields(cls: ast.ClassDef) -> List[str]:
    return [
        stmt.target.id
        for stmt in cls.body
        if isinstance(stmt, ast.AnnAssign) and isinstance(stmt.target, ast.Name)
    ]


def class_bases(prog: Program, mod: Module, cls: ast.ClassDef) -> List[Tuple[Module, ast.ClassDef]]:
    out = []
    for base in cls.bases:
        if isinstance(base, ast.Name):
            res = resolve_name(prog, mod, base.id)
            if res and isinstance(res[1], ast.ClassDef):
                out.append((res[0], res[1]))
    return out


def all_fields(prog: Program, mod: Module, cls: ast.ClassDef) -> List[str]:
    fields: List[str] = []
    for bmod, bcls in class_bases(prog, mod, cls):
        for f in all_fields(prog, bmod, bcls):
            if f not in fields:
                fields.append(f)
    for f in own_fields(cls):
        if f not in fields:
            fields.append(f)
    return fields


def find_method(prog: Program, mod: Module, cls: ast.ClassDef, name: str) -> Optional[Tuple[Module, ast.ClassDef, ast.AST]]:
    for stmt in cls.body:
        if isinstance(stmt, FuncNode) and stmt.name == name:
            return mod, cls, stmt
    # the last definition wins; walk again from the end to honour @overload
    for bmod, bcls in class_bases(prog, mod, cls):
        found = find_method(prog, bmod, bcls, name)
        if found:
            return found
    return None


def method_def(cls: ast.ClassDef, name: str) -> Optional[ast.AST]:
    found = None
    for stmt in cls.body:
        if isinstance(stmt, FuncNode) and stmt.name == name:
            found = stmt  # last definition wins (overload stubs come first)
    return found


def classes(prog: Program) -> Iterable[Tuple[Module, ast.ClassDef]]:
    for name in sorted(prog.modules):
        mod = prog.modules[name]
        for qual, node in prog.defs(name).items():
            if isinstance(node, ast.ClassDef) and "." not in qual:
                yield mod, node


def methods_named(prog: Program, name: str) -> List[Tuple[Module, ast.ClassDef, ast.AST]]:
    out = []
    for mod, cls in classes(prog):
        node = method_def(cls, name)
        if node is not None:
            out.append((mod, cls, node))
    return out


# ---------------------------------------------------------------------------
# call graph (direct calls + class-hierarchy resolution of method names)


def call_graph(prog: Program) -> "CallGraph":
    if "call_graph" not in prog.memo:
        prog.memo["call_graph"] = CallGraph(prog)
    return prog.memo["call_graph"]


class CallGraph:
    def __init__(self, prog: Program):
        self.prog = prog
        self.nodes: Dict[str, Tuple[Module, ast.AST]] = {}
        self.edges: Dict[str, Set[str]] = {}
        self.unresolved: Dict[str, Set[str]] = {}
        self._build()

    @staticmethod
    def key(mod: Module, qual: str) -> str:
        return f"{mod.name[len(PACKAGE) + 1:]}:{qual}"

    def _build(self) -> None:
        prog = self.prog
        qual_of: Dict[int, Tuple[Module, str]] = {}
        for mod, qual, node in prog.functions():
            self.nodes[self.key(mod, qual)] = (mod, node)
            qual_of[id(node)] = (mod, qual)
        method_index: Dict[str, List[str]] = {}
        for mod, qual, node in prog.functions():
            if "." in qual:
                owner = prog.defs(mod.name).get(qual.rsplit(".", 1)[0])
                if isinstance(owner, ast.ClassDef):
                    method_index.setdefault(node.name, []).append(self.key(mod, qual))
        for mod, qual, node in prog.functions():
            src = self.key(mod, qual)
            self.edges.setdefault(src, set())
            local_funcs = {
                n.name: n for n in walk_no_nested(node) if isinstance(n, FuncNode)
            }
            for sub in ast.walk(node):
                if not isinstance(sub, ast.Call):
                    continue
                func = sub.func
                target = None
                if isinstance(func, ast.Name) and func.id in local_funcs:
                    inner = local_funcs[func.id]
                    if id(inner) in qual_of:
                        target = self.key(*qual_of[id(inner)])
                if target is None:
                    res = resolve_callee(prog, mod, func)
                    if res is not None and id(res[1]) in qual_of:
                        target = self.key(*qual_of[id(res[1])])
                    elif res is not None and isinstance(res[1], ast.ClassDef):
                        init = method_def(res[1], "__init__")
                        if init is not None and id(init) in qual_of:
                            target = self.key(*qual_of[id(init)])
                        else:
                            continue
                if target is not None:
                    self.edges[src].add(target)
                    continue
                if isinstance(func, ast.Attribute):
                    cands = method_index.get(func.attr, [])
                    if cands:
                        self.edges[src].update(cands)
                        continue
                name = dotted(func) or type(func).__name__
                self.unresolved.setdefault(src, set()).add(name)
            # functions passed as values (callbacks) count as potential callees
            for sub in ast.walk(node):
                if isinstance(sub, ast.Name) and isinstance(sub.ctx, ast.Load):
                    res = resolve_name(prog, mod, sub.id)
                    if res is not None and id(res[1]) in qual_of and isinstance(res[1], FuncNode):
                        self.edges[src].add(self.key(*qual_of[id(res[1])]))

    def reachable(self, start: str, exclude: Iterable[str] = ()) -> Set[str]:
        if start not in self.nodes:
            raise AnalysisError(f"call graph: entry point {start} not found")
        excl = set(exclude)
        seen = {start}
        stack = [start]
        while stack:
            cur = stack.pop()
            for nxt in self.edges.get(cur, ()):
                if nxt not in seen and nxt not in excl:
                    seen.add(nxt)
                    stack.append(nxt)
        return seen

    def path(self, start: str, goal: str) -> Optional[List[str]]:
        prev: Dict[str, Optional[str]] = {start: None}
        queue = [start]
        while queue:
            cur = queue.pop(0)
            if cur == goal:
                out = []
                while cur is not None:
                    out.append(cur)
                    cur = prev[cur]
                return list(reversed(out))
            for nxt in sorted(self.edges.get(cur, ())):
                if nxt not in prev:
                    prev[nxt] = cur
                    queue.append(nxt)
        return None
