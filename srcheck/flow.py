"""Structured control flow over the statement kinds the repository uses.

* guards(fn, node)      conditions that dominate a node (if tests, early-exit
                        idiom, asserts, IfExp / BoolOp / comprehension filters)
* reaching(fn, name, at) SSA-lite reaching definition of a local at a statement
* inline(fn, expr, at)  copy propagation of locals into an expression
* paths(stmts)          acyclic paths through a block, loops taken 0/1 times
"""
from __future__ import annotations

import ast
import copy
from typing import Callable, Dict, Iterable, List, Optional, Sequence, Tuple

from .core import AnalysisError, FuncNode, ast_eq

Guard = Tuple[ast.AST, bool]  # (condition, polarity)

BLOCK_FIELDS = ("body", "orelse", "finalbody", "handlers")


def always_exits(stmts: Sequence[ast.stmt]) -> bool:
    """The block cannot fall through to the statement after it."""
    if not stmts:
        return False
    last = stmts[-1]
    if isinstance(last, (ast.Return, ast.Raise, ast.Continue, ast.Break)):
        return True
    if isinstance(last, ast.If):
        return always_exits(last.body) and always_exits(last.orelse)
    if isinstance(last, ast.With):
        return always_exits(last.body)
    return False


def contains(root: ast.AST, node: ast.AST) -> bool:
    if root is node:
        return True
    for sub in ast.walk(root):
        if sub is node:
            return True
    return False


def _stmt_chain(fn: ast.AST, node: ast.AST) -> List[Tuple[List[ast.stmt], int, str, ast.AST]]:
    """From the function body down to the statement holding `node`:
    list of (block, index in block, field name, owner statement)."""
    chain: List[Tuple[List[ast.stmt], int, str, ast.AST]] = []

    def descend(owner: ast.AST) -> bool:
        for fname in BLOCK_FIELDS:
            block = getattr(owner, fname, None)
            if not isinstance(block, list):
                continue
            for idx, stmt in enumerate(block):
                if isinstance(stmt, ast.ExceptHandler):
                    if contains(stmt, node):
                        chain.append((block, idx, fname, owner))
                        return descend(stmt) or True
                    continue
                if not isinstance(stmt, ast.stmt):
                    continue
                if contains(stmt, node):
                    chain.append((block, idx, fname, owner))
                    if stmt is node:
                        return True
                    if isinstance(stmt, FuncNode + (ast.ClassDef,)):
                        # nested definition: the node lives in another scope
                        return True
                    descend(stmt)
                    return True
        return False

    descend(fn)
    if not chain:
        raise AnalysisError("node is not inside the given function")
    return chain


def enclosing_stmt(fn: ast.AST, node: ast.AST) -> ast.stmt:
    block, idx, _f, _o = _stmt_chain(fn, node)[-1]
    return block[idx]


def conditions(fn: ast.AST, node: ast.AST) -> List[Guard]:
    """Like `guards`, without the facts stated by `assert`: an assertion that fails stops the program loudly, it
    does not make the statements after it 'conditional' in the sense of being silently skipped."""
    return guards(fn, node, asserts=False)


def guards(fn: ast.AST, node: ast.AST, asserts: bool = True) -> List[Guard]:
    """Conditions known to hold whenever `node` is evaluated inside `fn`."""
    out: List[Guard] = []
    chain = _stmt_chain(fn, node)
    for block, idx, fname, owner in chain:
        if isinstance(owner, ast.If):
            out.append((owner.test, fname == "body"))
        elif isinstance(owner, ast.While) and fname == "body":
            out.append((owner.test, True))
        for prev in block[:idx]:
            if isinstance(prev, ast.Assert):
                if asserts:
                    out.append((prev.test, True))
            elif isinstance(prev, ast.If):
                body_exits = always_exits(prev.body)
                else_exits = always_exits(prev.orelse)
                if body_exits and not else_exits:
                    out.append((prev.test, False))
                elif else_exits and not body_exits:
                    out.append((prev.test, True))
    stmt = chain[-1][0][chain[-1][1]]
    out.extend(_expr_guards(stmt, node))
    return [_strip_not(g, p) for g, p in out]


def _strip_not(test: ast.AST, pol: bool) -> Guard:
    while isinstance(test, ast.UnaryOp) and isinstance(test.op, ast.Not):
        test, pol = test.operand, not pol
    return test, pol


def _expr_guards(stmt: ast.AST, node: ast.AST) -> List[Guard]:
    """Guards contributed by expression-level control (IfExp, and/or, filters)."""
    out: List[Guard] = []
    cur = stmt
    while cur is not node:
        nxt = None
        for child in ast.iter_child_nodes(cur):
            if contains(child, node):
                nxt = child
                break
        if nxt is None:
            break
        if isinstance(cur, ast.IfExp):
            if nxt is cur.body:
                out.append((cur.test, True))
            elif nxt is cur.orelse:
                out.append((cur.test, False))
        elif isinstance(cur, ast.BoolOp):
            pos = cur.values.index(nxt) if nxt in cur.values else -1
            for prev in cur.values[: max(pos, 0)]:
                out.append((prev, isinstance(cur.op, ast.And)))
        elif isinstance(cur, (ast.ListComp, ast.SetComp, ast.GeneratorExp, ast.DictComp)):
            in_generators = any(contains(g, node) for g in cur.generators)
            if not in_generators:
                for gen in cur.generators:
                    for cond in gen.ifs:
                        out.append((cond, True))
        elif isinstance(cur, (ast.If, ast.While)) and nxt is cur.test:
            pass
        cur = nxt
    return out


def loops_around(fn: ast.AST, node: ast.AST) -> List[ast.AST]:
    """For / While statements enclosing `node` (outermost first)."""
    out = []
    for block, idx, fname, owner in _stmt_chain(fn, node):
        if isinstance(owner, (ast.For, ast.While)) and fname == "body":
            out.append(owner)
    return out


# ---------------------------------------------------------------------------
# reaching definitions (SSA-lite)


def _assigned_names(target: ast.AST) -> List[str]:
    return [n.id for n in ast.walk(target) if isinstance(n, ast.Name) and not isinstance(n.ctx, ast.Load)]


def _binds(stmt: ast.stmt, name: str) -> bool:
    """Does the statement (including nested blocks) bind `name`?"""
    for sub in ast.walk(stmt):
        if isinstance(sub, FuncNode + (ast.Lambda,)) and sub is not stmt:
            continue
        if isinstance(sub, ast.Assign):
            if any(name in _assigned_names(t) for t in sub.targets):
                return True
        elif isinstance(sub, (ast.AugAssign, ast.AnnAssign)):
            if name in _assigned_names(sub.target):
                return True
        elif isinstance(sub, (ast.For, ast.comprehension)):
            if name in _assigned_names(sub.target):
                if isinstance(sub, ast.For):
                    return True
        elif isinstance(sub, ast.With):
            for item in sub.items:
                if item.optional_vars is not None and name in _assigned_names(item.optional_vars):
                    return True
        elif isinstance(sub, ast.NamedExpr):
            if name in _assigned_names(sub.target):
                return True
    return False


class Opaque:
    """Marker: a definition exists but is not a single expression."""

    def __init__(self, why: str):
        self.why = why


def _def_in_block(fn: ast.AST, block: Sequence[ast.stmt], upto: int, name: str):
    """Latest definition of `name` among block[:upto], or None if none binds it."""
    for pos in range(upto - 1, -1, -1):
        stmt = block[pos]
        if not _binds(stmt, name):
            continue
        if isinstance(stmt, ast.Assign) and len(stmt.targets) == 1:
            tgt = stmt.targets[0]
            if isinstance(tgt, ast.Name) and tgt.id == name:
                return stmt.value
            if isinstance(tgt, (ast.Tuple, ast.List)) and isinstance(stmt.value, (ast.Tuple, ast.List)):
                if len(tgt.elts) == len(stmt.value.elts):
                    for t, v in zip(tgt.elts, stmt.value.elts):
                        if isinstance(t, ast.Name) and t.id == name:
                            return v
            if isinstance(tgt, (ast.Tuple, ast.List)):
                # unpacking of an opaque value: element i of value
                for i, t in enumerate(tgt.elts):
                    if isinstance(t, ast.Name) and t.id == name:
                        return ast.Subscript(
                            value=stmt.value, slice=ast.Constant(value=i), ctx=ast.Load()
                        )
            return Opaque("complex assignment target")
        if isinstance(stmt, ast.Assign) and len(stmt.targets) > 1:
            # a = b = value
            for tgt in stmt.targets:
                if isinstance(tgt, ast.Name) and tgt.id == name:
                    return stmt.value
            return Opaque("chained assignment")
        if isinstance(stmt, ast.AnnAssign) and isinstance(stmt.target, ast.Name) and stmt.value is not None:
            return stmt.value
        if isinstance(stmt, ast.AugAssign) and isinstance(stmt.target, ast.Name):
            before = _def_in_block(fn, block, pos, name)
            if before is None:
                before = _outer_def(fn, stmt, name)
            if before is None or isinstance(before, Opaque):
                return Opaque("augmented assignment of unknown base")
            return ast.BinOp(left=before, op=stmt.op, right=stmt.value)
        if isinstance(stmt, ast.If):
            a = _def_in_block(fn, stmt.body, len(stmt.body), name)
            b = _def_in_block(fn, stmt.orelse, len(stmt.orelse), name)
            if a is None or b is None:
                before = _def_in_block(fn, block, pos, name)
                if before is None:
                    before = _outer_def(fn, stmt, name)
                if before is None:
                    return Opaque("conditionally defined")
                a = before if a is None else a
                b = before if b is None else b
            if isinstance(a, Opaque) or isinstance(b, Opaque):
                return Opaque("conditional opaque definition")
            return ast.IfExp(test=stmt.test, body=a, orelse=b)
        return Opaque(f"bound by {type(stmt).__name__}")
    return None


def _outer_def(fn: ast.AST, stmt: ast.AST, name: str):
    chain = _stmt_chain(fn, stmt)
    # walk outwards, skipping the innermost level (already examined by caller)
    for block, idx, fname, owner in reversed(chain[:-1]):
        inner_owner_binds = False
        found = _def_in_block(fn, block, idx, name)
        if found is not None:
            return found
        if isinstance(owner, ast.For) and name in _assigned_names(owner.target):
            return Opaque("loop variable")
        del inner_owner_binds
    # check the owners of every level for loop targets
    for block, idx, fname, owner in chain:
        if isinstance(owner, ast.For) and name in _assigned_names(owner.target):
            return Opaque("loop variable")
    return None


_REACH_CACHE: Dict[Tuple[int, str, int], Tuple[ast.AST, ast.AST, object]] = {}


def reaching(fn: ast.AST, name: str, at: ast.AST):
    """Memoised :func:`_reaching` (the key holds references to the nodes, so ids cannot be recycled)."""
    key = (id(fn), name, id(at))
    hit = _REACH_CACHE.get(key)
    if hit is not None and hit[0] is fn and hit[1] is at:
        return hit[2]
    val = _reaching(fn, name, at)
    if len(_REACH_CACHE) > 200000:
        _REACH_CACHE.clear()
    _REACH_CACHE[key] = (fn, at, val)
    return val


def _reaching(fn: ast.AST, name: str, at: ast.AST):
    """Expression reaching the use of local `name` at node `at`.

    Returns an ast expression, an :class:`Opaque`, or None when the name is a
    parameter / global / free variable of `fn`.
    """
    chain = _stmt_chain(fn, at)
    # loop-carried redefinition: the name is rebound inside an enclosing loop
    for level, (block, idx, fname, owner) in enumerate(reversed(chain)):
        found = _def_in_block(fn, block, idx, name)
        if found is not None:
            # make sure no enclosing loop *between* here and the use rebinds it later
            return found
        if isinstance(owner, ast.For) and fname == "body":
            if name in _assigned_names(owner.target):
                return Opaque("loop variable")
            if any(_binds(s, name) for s in owner.body):
                return Opaque("loop-carried")
        if isinstance(owner, ast.While) and fname == "body":
            if any(_binds(s, name) for s in owner.body):
                return Opaque("loop-carried")
        if isinstance(owner, ast.With):
            for item in owner.items:
                if item.optional_vars is not None and name in _assigned_names(item.optional_vars):
                    return Opaque("with target")
    return None


def inline(fn: ast.AST, expr: ast.AST, at: Optional[ast.AST] = None, depth: int = 8,
           stop: Optional[Callable[[str], bool]] = None) -> ast.AST:
    """Copy-propagate single reaching definitions of locals into `expr`."""
    at = at if at is not None else expr
    return _PosInliner(fn, depth, stop or (lambda _n: False)).run(expr, at)


class _PosInliner:
    """Inliner that evaluates each definition at its own program point."""

    def __init__(self, fn: ast.AST, depth: int, stop: Callable[[str], bool]):
        self.fn = fn
        self.depth = depth
        self.stop = stop

    def run(self, expr: ast.AST, at: ast.AST, depth: Optional[int] = None, bound: Tuple[str, ...] = ()) -> ast.AST:
        depth = self.depth if depth is None else depth
        return self._rewrite(expr, at, depth, bound)

    def _rewrite(self, node: ast.AST, at: ast.AST, depth: int, bound: Tuple[str, ...]) -> ast.AST:
        if isinstance(node, ast.Lambda):
            return copy.deepcopy(node)
        if isinstance(node, ast.Name):
            if not isinstance(node.ctx, ast.Load) or node.id in bound or self.stop(node.id) or depth <= 0:
                return ast.Name(id=node.id, ctx=ast.Load())
            found = reaching(self.fn, node.id, at)
            if found is None or isinstance(found, Opaque):
                return ast.Name(id=node.id, ctx=ast.Load())
            return self._rewrite_def(found, at, depth - 1, bound)
        if isinstance(node, (ast.ListComp, ast.SetComp, ast.GeneratorExp, ast.DictComp)):
            names = tuple(n for g in node.generators for n in _assigned_names(g.target))
            bound = bound + names
        new = copy.copy(node)
        for fname, value in ast.iter_fields(node):
            if isinstance(value, ast.AST):
                setattr(new, fname, self._rewrite(value, at, depth, bound))
            elif isinstance(value, list):
                setattr(
                    new,
                    fname,
                    [self._rewrite(v, at, depth, bound) if isinstance(v, ast.AST) else v for v in value],
                )
        return new

    def _rewrite_def(self, found: ast.AST, at: ast.AST, depth: int, bound: Tuple[str, ...]) -> ast.AST:
        """`found` may be a synthetic node (IfExp/BinOp/Subscript) wrapping real ones."""
        if hasattr(found, "lineno") and contains(self.fn, found):
            return self._rewrite(found, found, depth, bound)
        new = copy.copy(found)
        for fname, value in ast.iter_fields(found):
            if isinstance(value, ast.AST):
                setattr(new, fname, self._rewrite_def(value, at, depth, bound))
            elif isinstance(value, list):
                setattr(
                    new,
                    fname,
                    [self._rewrite_def(v, at, depth, bound) if isinstance(v, ast.AST) else v for v in value],
                )
        return new


# ---------------------------------------------------------------------------
# path enumeration


class Path:
    __slots__ = ("events", "end", "conds")

    def __init__(self, events: Tuple[ast.AST, ...] = (), end: str = "fall", conds: Tuple[Guard, ...] = ()):
        self.events = events
        self.end = end  # fall | return | raise | continue | break
        self.conds = conds

    def extend(self, event: ast.AST) -> "Path":
        return Path(self.events + (event,), self.end, self.conds)

    def cond(self, test: ast.AST, polarity: bool) -> "Path":
        return Path(self.events, self.end, self.conds + ((test, polarity),))

    def ended(self, kind: str) -> "Path":
        return Path(self.events, kind, self.conds)


MAX_PATHS = 20000


def paths(stmts: Sequence[ast.stmt], prefix: Optional[List[Path]] = None) -> List[Path]:
    """Acyclic paths through a block; loops are taken zero times or once.

    Events are the simple statements (and loop headers) met along the way.
    """
    current = prefix if prefix is not None else [Path()]
    done: List[Path] = []
    for stmt in stmts:
        live = [p for p in current if p.end == "fall"]
        done.extend(p for p in current if p.end != "fall")
        if not live:
            current = []
            break
        if isinstance(stmt, ast.If):
            body = paths(stmt.body, [p.cond(stmt.test, True) for p in live])
            other = paths(stmt.orelse, [p.cond(stmt.test, False) for p in live])
            current = body + other
        elif isinstance(stmt, (ast.For, ast.While)):
            header = [p.extend(stmt) for p in live]
            zero = header if not isinstance(stmt, ast.While) or True else header
            once = paths(stmt.body, header)
            after: List[Path] = list(zero)
            for p in once:
                if p.end in ("fall", "continue", "break"):
                    after.append(Path(p.events, "fall", p.conds))
                else:
                    after.append(p)
            if stmt.orelse:
                after = paths(stmt.orelse, [p for p in after if p.end == "fall"]) + [
                    p for p in after if p.end != "fall"
                ]
            current = after
        elif isinstance(stmt, ast.With):
            current = paths(stmt.body, [p.extend(stmt) for p in live])
        elif isinstance(stmt, ast.Try):
            current = paths(stmt.body + stmt.orelse + stmt.finalbody, live)
        elif isinstance(stmt, ast.Return):
            current = [p.extend(stmt).ended("return") for p in live]
        elif isinstance(stmt, ast.Raise):
            current = [p.extend(stmt).ended("raise") for p in live]
        elif isinstance(stmt, ast.Continue):
            current = [p.ended("continue") for p in live]
        elif isinstance(stmt, ast.Break):
            current = [p.ended("break") for p in live]
        else:
            current = [p.extend(stmt) for p in live]
        if len(current) + len(done) > MAX_PATHS:
            raise AnalysisError("path explosion")
    return done + current


def consistent(conds: Iterable[Guard]) -> bool:
    """Cheap feasibility filter: no condition taken with both polarities."""
    seen: Dict[str, bool] = {}
    for test, pol in conds:
        key = ast.dump(test)
        if key in seen and seen[key] != pol:
            return False
        seen[key] = pol
    return True


def dealias(fn: ast.AST, expr: ast.AST, at: ast.AST, depth: int = 0) -> ast.AST:
    """`expr` with a local that is bound to a plain attribute chain (`w = params.species_label_width`,
    `anchors = layout.anchors`) replaced by that chain; anything else is returned as it is."""
    if depth > 3 or not isinstance(expr, ast.Name):
        return expr
    try:
        got = reaching(fn, expr.id, at)
    except Exception:  # noqa: BLE001 - `at` outside the statements of fn (a default value, a decorator)
        return expr
    if got is None or isinstance(got, Opaque) or not isinstance(got, ast.Attribute):
        return expr
    cur = got
    while isinstance(cur, ast.Attribute):
        cur = cur.value
    if not isinstance(cur, ast.Name):
        return expr
    return got
