"""Finite relational models of a rooted tree, for code that touches tree nodes
only through order comparisons.

Several functions of the package (``node_event``, the conserved-child tests of
the evaluator, the left/right assignment of the layout) never look at a species
node except through ``is_ancestor_of`` / ``is_strict_ancestor_of`` /
``is_comparable`` / ``==`` / the LCA oracle / ``.children[k]`` / ``.up``.  Such a
function is a *decision table* over the finitely many order types of the nodes
it is given.  The table is extracted from the syntax tree by evaluating the
boolean skeleton of the function over every tuple of nodes of a small complete
tree (every order type of <= 4 nodes is realised in a complete binary tree of
depth 3) - no code of the package is executed, the only semantics used are the
definitions of the five relations above (fact table about utils.trees.
LowestCommonAncestor, the subject of C17).
"""
from __future__ import annotations

import ast
from typing import Callable, Dict, Iterable, List, Optional, Sequence, Tuple

from .core import AnalysisError, dotted, short


class TreeModel:
    """Complete binary tree of the given depth; nodes are heap indices (root = 1)."""

    def __init__(self, depth: int = 3):
        self.depth = depth
        self.nodes = list(range(1, 2 ** (depth + 1)))

    def up(self, a: int) -> Optional[int]:
        return a // 2 if a > 1 else None

    def children(self, a: int) -> List[int]:
        return [2 * a, 2 * a + 1] if 2 * a + 1 < 2 ** (self.depth + 1) else []

    def level(self, a: int) -> int:
        return a.bit_length() - 1

    def anc(self, a: int, b: int) -> bool:
        """a is an ancestor of b or b itself."""
        while b > a:
            b //= 2
        return a == b

    def strict_anc(self, a: int, b: int) -> bool:
        return a != b and self.anc(a, b)

    def comparable(self, a: int, b: int) -> bool:
        return self.anc(a, b) or self.anc(b, a)

    def lca(self, a: int, b: int) -> int:
        while a != b:
            if a > b:
                a //= 2
            else:
                b //= 2
        return a

    def distance(self, a: int, b: int) -> int:
        c = self.lca(a, b)
        return self.level(a) + self.level(b) - 2 * self.level(c)

    def describe(self, names: Sequence[str], values: Sequence[int]) -> str:
        """Order type of a tuple, in words (used in reports)."""
        parts = []
        for i, (na, a) in enumerate(zip(names, values)):
            for nb, b in list(zip(names, values))[i + 1:]:
                if a == b:
                    rel = "="
                elif self.anc(a, b):
                    rel = "strictly above"
                elif self.anc(b, a):
                    rel = "strictly below"
                else:
                    rel = "incomparable with"
                parts.append(f"{na} {rel} {nb}")
        return ", ".join(parts)


class Undefined(Exception):
    """A term has no value in this configuration (e.g. `.up` of the root, `.children` of a leaf)."""


TermFn = Callable[[ast.AST], Optional[int]]

ANC_METHODS = {
    "is_ancestor_of": "anc",
    "is_strict_ancestor_of": "strict_anc",
    "is_comparable": "comparable",
}


class RelEval:
    """Evaluate terms (-> model node) and boolean expressions over a TreeModel.

    `base(expr)` binds the leaves of terms (parameters, `mapping[x]` lookups ...);
    `oracle_names` are the spellings of the LCA oracle object (`species_lca`, ...);
    `pred(expr)` may decide additional atomic predicates (returns None when it does not apply).
    """

    def __init__(
        self,
        model: TreeModel,
        base: TermFn,
        oracle_names: Iterable[str],
        pred: Optional[Callable[[ast.AST], Optional[bool]]] = None,
    ):
        self.m = model
        self.base = base
        self.oracles = set(oracle_names)
        self.pred = pred

    # -- terms -------------------------------------------------------------
    def is_oracle(self, node: ast.AST) -> bool:
        name = dotted(node)
        return name is not None and (name in self.oracles or name.split(".")[-1] in self.oracles)

    def term(self, node: ast.AST) -> int:
        val = self.base(node)
        if val is not None:
            return val
        if isinstance(node, ast.Subscript) and isinstance(node.value, ast.Attribute) and node.value.attr == "children":
            if isinstance(node.slice, ast.Constant) and node.slice.value in (0, 1):
                kids = self.m.children(self.term(node.value.value))
                if not kids:
                    raise Undefined("children of a leaf")
                return kids[node.slice.value]
        if isinstance(node, ast.Attribute) and node.attr == "up":
            par = self.m.up(self.term(node.value))
            if par is None:
                raise Undefined("parent of the root")
            return par
        if isinstance(node, ast.Call) and self.is_oracle(node.func) and not node.keywords and node.args:
            if all(not isinstance(a, ast.Starred) for a in node.args):
                vals = [self.term(a) for a in node.args]
                out = vals[0]
                for v in vals[1:]:
                    out = self.m.lca(out, v)
                return out
        if isinstance(node, ast.IfExp):
            return self.term(node.body if self.truth(node.test) else node.orelse)
        raise AnalysisError(f"relational model: `{short(node)}` is not a recognised species term")

    def is_term(self, node: ast.AST) -> bool:
        try:
            self.term(node)
            return True
        except Undefined:
            return True
        except AnalysisError:
            return False

    # -- integers (levels and distances) --------------------------------------
    def resolve_name(self, node: ast.Name) -> Optional[ast.AST]:
        return None

    def int_term(self, node: ast.AST) -> int:
        if isinstance(node, ast.Constant) and isinstance(node.value, int) and not isinstance(node.value, bool):
            return node.value
        if isinstance(node, ast.UnaryOp) and isinstance(node.op, ast.USub):
            return -self.int_term(node.operand)
        if isinstance(node, ast.BinOp) and isinstance(node.op, (ast.Add, ast.Sub, ast.Mult)):
            a, b = self.int_term(node.left), self.int_term(node.right)
            return a + b if isinstance(node.op, ast.Add) else a - b if isinstance(node.op, ast.Sub) else a * b
        if isinstance(node, ast.Call) and isinstance(node.func, ast.Attribute) and self.is_oracle(node.func.value) and not node.keywords:
            if node.func.attr == "level" and len(node.args) == 1:
                return self.m.level(self.term(node.args[0]))
            if node.func.attr == "distance" and len(node.args) == 2:
                a, b = self.term(node.args[0]), self.term(node.args[1])
                if not self.m.comparable(a, b):
                    raise Undefined("distance between incomparable species")
                return self.m.distance(a, b)
        if isinstance(node, ast.Name):
            found = self.resolve_name(node)
            if found is not None:
                return self.int_term(found)
        raise AnalysisError(f"relational model: `{short(node)}` is not a recognised integer term")

    def is_int_term(self, node: ast.AST) -> bool:
        try:
            self.int_term(node)
            return True
        except Undefined:
            return True
        except AnalysisError:
            return False

    # -- predicates --------------------------------------------------------
    def truth(self, node: ast.AST) -> bool:
        if self.pred is not None:
            known = self.pred(node)
            if known is not None:
                return known
        if isinstance(node, ast.Constant) and isinstance(node.value, bool):
            return node.value
        if isinstance(node, ast.UnaryOp) and isinstance(node.op, ast.Not):
            return not self.truth(node.operand)
        if isinstance(node, ast.BoolOp):
            if isinstance(node.op, ast.And):
                for v in node.values:
                    if not self.truth(v):
                        return False
                return True
            for v in node.values:
                if self.truth(v):
                    return True
            return False
        if isinstance(node, ast.IfExp):
            return self.truth(node.body if self.truth(node.test) else node.orelse)
        if isinstance(node, ast.Call) and isinstance(node.func, ast.Attribute) and node.func.attr in ANC_METHODS:
            if self.is_oracle(node.func.value) and len(node.args) == 2 and not node.keywords:
                a, b = self.term(node.args[0]), self.term(node.args[1])
                return getattr(self.m, ANC_METHODS[node.func.attr])(a, b)
        if isinstance(node, ast.Compare) and len(node.ops) == 1:
            op = node.ops[0]
            if isinstance(op, (ast.Eq, ast.NotEq, ast.Is, ast.IsNot)):
                if self.is_int_term(node.left) and self.is_int_term(node.comparators[0]):
                    return (self.int_term(node.left) == self.int_term(node.comparators[0])) == isinstance(op, (ast.Eq, ast.Is))
                a, b = self.term(node.left), self.term(node.comparators[0])
                return (a == b) == isinstance(op, (ast.Eq, ast.Is))
            if isinstance(op, (ast.Lt, ast.LtE, ast.Gt, ast.GtE)):
                a, b = self.int_term(node.left), self.int_term(node.comparators[0])
                return a < b if isinstance(op, ast.Lt) else a <= b if isinstance(op, ast.LtE) else a > b if isinstance(op, ast.Gt) else a >= b
            if isinstance(op, (ast.In, ast.NotIn)):
                # x in y.traverse() / y.iter_descendants() / y.children
                cont = node.comparators[0]
                a = self.term(node.left)
                inside = self._member(a, cont)
                return inside == isinstance(op, ast.In)
        raise AnalysisError(f"relational model: `{short(node)}` is not a recognised order predicate")

    def _member(self, a: int, cont: ast.AST) -> bool:
        if isinstance(cont, ast.Call) and isinstance(cont.func, ast.Attribute) and not cont.keywords:
            base = self.term(cont.func.value)
            if cont.func.attr == "traverse":
                return self.m.anc(base, a)
            if cont.func.attr in ("iter_descendants", "get_descendants"):
                return self.m.strict_anc(base, a)
        if isinstance(cont, ast.Attribute) and cont.attr == "children":
            return a in self.m.children(self.term(cont.value))
        if isinstance(cont, (ast.Tuple, ast.List, ast.Set)):
            return any(a == self.term(e) for e in cont.elts)
        raise AnalysisError(f"relational model: container `{short(cont)}` is not recognised")


def run_block(stmts: Sequence[ast.stmt], ev: RelEval, on_stmt: Optional[Callable[[ast.stmt], bool]] = None):
    """Follow the control flow of a block whose tests are order predicates.

    Returns the `ast.Return` statement reached (with IfExp values resolved into
    the chosen branch expression) or None when the block falls through.
    `on_stmt(stmt)` is called for every simple statement executed; returning
    True means "handled" (otherwise only Assign/AnnAssign/Expr/Pass/Assert are
    accepted silently).
    """
    for stmt in stmts:
        if isinstance(stmt, ast.If):
            branch = stmt.body if ev.truth(stmt.test) else stmt.orelse
            got = run_block(branch, ev, on_stmt)
            if got is not None:
                return got
            continue
        if isinstance(stmt, ast.Return):
            value = stmt.value
            while isinstance(value, ast.IfExp):
                value = value.body if ev.truth(value.test) else value.orelse
            return ("return", value, stmt)
        if isinstance(stmt, ast.Raise):
            return ("raise", None, stmt)
        if isinstance(stmt, (ast.Continue, ast.Break)):
            return (type(stmt).__name__.lower(), None, stmt)
        if on_stmt is not None and on_stmt(stmt):
            continue
        if isinstance(stmt, (ast.Assign, ast.AnnAssign, ast.Expr, ast.Pass, ast.Assert, ast.AugAssign)):
            continue
        raise AnalysisError(f"relational model: statement `{short(stmt)}` is not supported")
    return None


class FnEval(RelEval):
    """RelEval whose Name terms are followed through the reaching definitions of a function.

    `params` binds parameter names (or canonical expression texts, e.g. `rec[node]`) to model nodes.
    """

    def __init__(self, model: TreeModel, fn: ast.AST, oracle_names: Iterable[str], bind: Callable[[ast.AST], Optional[int]],
                 pred: Optional[Callable[[ast.AST], Optional[bool]]] = None):
        super().__init__(model, self._base, oracle_names, pred)
        self.fn = fn
        self.bind = bind
        self._depth = 0

    def _base(self, node: ast.AST) -> Optional[int]:
        val = self.bind(node)
        if val is not None:
            return val
        if isinstance(node, ast.Name) and hasattr(node, "lineno"):
            from .flow import Opaque, reaching

            found = reaching(self.fn, node.id, node)
            if found is None or isinstance(found, Opaque):
                return None
            if self._depth > 12:
                raise AnalysisError("relational model: definition chain too deep")
            self._depth += 1
            try:
                return self.term(found)
            finally:
                self._depth -= 1
        return None

    def resolve_name(self, node: ast.Name) -> Optional[ast.AST]:
        if hasattr(node, "lineno"):
            from .flow import Opaque, reaching

            found = reaching(self.fn, node.id, node)
            if found is not None and not isinstance(found, Opaque):
                return found
        return None

    def is_oracle(self, node: ast.AST) -> bool:
        if super().is_oracle(node):
            return True
        if isinstance(node, ast.Name) and hasattr(node, "lineno"):
            from .flow import Opaque, reaching

            found = reaching(self.fn, node.id, node)
            if found is not None and not isinstance(found, Opaque):
                return self.is_oracle(found)
        return False


def number(ev: RelEval, node: ast.AST, level_fn: Callable[[ast.AST], Optional[int]]) -> int:
    """Integer value of an arithmetic expression over `level_fn` atoms (+, -, *, unary minus, constants)."""
    val = level_fn(node)
    if val is not None:
        return val
    if isinstance(node, ast.Constant) and isinstance(node.value, int) and not isinstance(node.value, bool):
        return node.value
    if isinstance(node, ast.UnaryOp) and isinstance(node.op, ast.USub):
        return -number(ev, node.operand, level_fn)
    if isinstance(node, ast.BinOp) and isinstance(node.op, (ast.Add, ast.Sub, ast.Mult)):
        a, b = number(ev, node.left, level_fn), number(ev, node.right, level_fn)
        return a + b if isinstance(node.op, ast.Add) else a - b if isinstance(node.op, ast.Sub) else a * b
    raise AnalysisError(f"relational model: `{short(node)}` is not a recognised integer expression")
