"""Transposition sigma (x<->y, w<->h, ...) of syntax trees and canonical forms to compare them."""
from __future__ import annotations

import ast
import copy
from typing import Dict, List, Optional, Sequence, Set, Tuple

from .core import dotted
from .sym import Normaliser

SWAP_FIELD = {"x": "y", "y": "x", "w": "h", "h": "w"}
SWAP_METHOD = {
    "top": "left",
    "left": "top",
    "bottom": "right",
    "right": "bottom",
    "top_right": "bottom_left",
    "bottom_left": "top_right",
    "meet_hv": "meet_vh",
    "meet_vh": "meet_hv",
}
FIXED_METHOD = {"top_left", "bottom_right", "center", "make_from", "__add__", "__sub__"}
SWAP_NAME = {"trunk_width": "trunk_height", "trunk_height": "trunk_width"}
SWAP_ORIENT = {"VERTICAL": "HORIZONTAL", "HORIZONTAL": "VERTICAL"}
SWAP_TOKEN = {"width": "height", "height": "width"}


def swap_identifier(name: str) -> str:
    """`trunk_width` <-> `trunk_height`, whatever else the identifier contains (token-wise, so a renamed
    local such as `trunk_width_px` still has its transposed partner)."""
    if name in SWAP_NAME:
        return SWAP_NAME[name]
    parts = name.split("_")
    if any(p in SWAP_TOKEN for p in parts):
        return "_".join(SWAP_TOKEN.get(p, p) for p in parts)
    return name


CTOR2 = {"Position", "Size"}
CTOR4 = {"Rect"}


class Sigma(ast.NodeTransformer):
    def __init__(self, vector_params: Sequence[str] = ()):
        # names of tuple-like vector parameters whose [0]/[1] are exchanged (geometry.py only)
        self.vector_params = set(vector_params)

    def visit_Name(self, node: ast.Name):
        swapped = swap_identifier(node.id)
        if swapped != node.id:
            return ast.copy_location(ast.Name(id=swapped, ctx=node.ctx), node)
        return node

    def visit_Attribute(self, node: ast.Attribute):
        node = self.generic_visit(node)
        if node.attr in SWAP_FIELD:
            node.attr = SWAP_FIELD[node.attr]
        elif node.attr in SWAP_ORIENT and dotted(node.value) == "Orientation":
            node.attr = SWAP_ORIENT[node.attr]
        return node

    def visit_Subscript(self, node: ast.Subscript):
        node = self.generic_visit(node)
        if (
            isinstance(node.value, ast.Name)
            and node.value.id in self.vector_params
            and isinstance(node.slice, ast.Constant)
            and node.slice.value in (0, 1)
        ):
            node.slice = ast.Constant(value=1 - node.slice.value)
        return node

    def visit_Call(self, node: ast.Call):
        node = self.generic_visit(node)
        if isinstance(node.func, ast.Attribute) and node.func.attr in SWAP_METHOD:
            node.func.attr = SWAP_METHOD[node.func.attr]
        name = dotted(node.func)
        if name in CTOR2 and len(node.args) == 2 and not node.keywords:
            node.args = [node.args[1], node.args[0]]
        elif name in CTOR4 and len(node.args) == 4 and not node.keywords:
            a, b, c, d = node.args
            node.args = [b, a, d, c]
        if name in CTOR2 | CTOR4 or (name and name.endswith(".make_from")):
            for kw in node.keywords:
                if kw.arg in SWAP_FIELD:
                    kw.arg = SWAP_FIELD[kw.arg]
        return node

    def visit_FunctionDef(self, node: ast.FunctionDef):
        node = self.generic_visit(node)
        return node


def sigma(node: ast.AST, vector_params: Sequence[str] = ()) -> ast.AST:
    return Sigma(vector_params).visit(copy.deepcopy(node))


# ---------------------------------------------------------------------------
# canonical forms


_NORM = Normaliser()


def is_orientation_test(test: ast.AST) -> Optional[str]:
    """`<x>.orientation == Orientation.K` -> K"""
    if isinstance(test, ast.Compare) and len(test.ops) == 1 and isinstance(test.ops[0], (ast.Eq, ast.Is, ast.NotEq, ast.IsNot)):
        left, right = test.left, test.comparators[0]
        for a, b in ((left, right), (right, left)):
            name = dotted(b)
            # (whatever is compared with a member of Orientation is an orientation: `params.orientation` or a local
            # bound to it)
            if name and name.startswith("Orientation.") and ((isinstance(a, ast.Attribute) and a.attr == "orientation") or isinstance(a, ast.Name)):
                kind = name.split(".")[1]
                if isinstance(test.ops[0], (ast.NotEq, ast.IsNot)):
                    kind = SWAP_ORIENT.get(kind, kind)
                return kind
    return None


def canon_expr(node: Optional[ast.AST]) -> str:
    return _NORM.text(node) if node is not None else "None"


def _reads(node: ast.AST) -> Set[str]:
    return {n.id for n in ast.walk(node) if isinstance(n, ast.Name) and isinstance(n.ctx, ast.Load)}


def _writes(stmt: ast.stmt) -> Set[str]:
    out = set()
    if isinstance(stmt, ast.Assign):
        for t in stmt.targets:
            out.add(canon_expr(t))
    return out


def canon_block(stmts: Sequence[ast.stmt], orient_placeholder: bool = False) -> List[str]:
    out: List[str] = []
    run: List[Tuple[str, str, ast.stmt]] = []

    def flush():
        if run:
            out.extend(sorted(f"{t} = {v}" for t, v, _s in run))
            run.clear()

    for stmt in stmts:
        if isinstance(stmt, ast.Expr) and isinstance(stmt.value, ast.Constant) and isinstance(stmt.value.value, str):
            continue  # docstring
        if isinstance(stmt, ast.Assign) and len(stmt.targets) == 1:
            target = canon_expr(stmt.targets[0])
            reads = _reads(stmt.value) | (
                _reads(stmt.targets[0]) if not isinstance(stmt.targets[0], ast.Name) else set()
            )
            written = {t for t, _v, _s in run}
            written_names = {n for _t, _v, s in run for n in _target_names(s)}
            independent = (
                target not in written
                and not (reads & written_names)
                and not (_target_names(stmt) & {n for _t, _v, s in run for n in _reads(s.value)})
            )
            if not independent:
                flush()
            run.append((target, canon_expr(stmt.value), stmt))
            continue
        flush()
        out.append(canon_stmt(stmt, orient_placeholder))
    flush()
    return out


def _target_names(stmt: ast.stmt) -> Set[str]:
    out = set()
    if isinstance(stmt, ast.Assign):
        for t in stmt.targets:
            base = t
            while isinstance(base, (ast.Subscript, ast.Attribute)):
                base = base.value
            if isinstance(base, ast.Name):
                out.add(base.id)
    return out


def canon_stmt(stmt: ast.stmt, orient_placeholder: bool = False) -> str:
    if isinstance(stmt, ast.If):
        kind = is_orientation_test(stmt.test)
        if kind is not None:
            if orient_placeholder:
                return "<orientation-switch>"
            body, orelse = stmt.body, stmt.orelse
            if kind == "HORIZONTAL":
                body, orelse = orelse, body
            return f"if VERTICAL: {canon_block(body)} else: {canon_block(orelse)}"
        return (
            f"if {canon_expr(stmt.test)}: {canon_block(stmt.body, orient_placeholder)} "
            f"else: {canon_block(stmt.orelse, orient_placeholder)}"
        )
    if isinstance(stmt, ast.For):
        return (
            f"for {canon_expr(stmt.target)} in {canon_expr(stmt.iter)}: "
            f"{canon_block(stmt.body, orient_placeholder)}"
        )
    if isinstance(stmt, ast.While):
        return f"while {canon_expr(stmt.test)}: {canon_block(stmt.body, orient_placeholder)}"
    if isinstance(stmt, ast.Assign):
        return " = ".join(canon_expr(t) for t in stmt.targets) + " = " + canon_expr(stmt.value)
    if isinstance(stmt, ast.AugAssign):
        return f"{canon_expr(stmt.target)} {type(stmt.op).__name__}= {canon_expr(stmt.value)}"
    if isinstance(stmt, ast.AnnAssign):
        return f"{canon_expr(stmt.target)} = {canon_expr(stmt.value)}"
    if isinstance(stmt, ast.Return):
        return f"return {canon_expr(stmt.value)}"
    if isinstance(stmt, ast.Expr):
        return canon_expr(stmt.value)
    if isinstance(stmt, ast.Delete):
        return "del " + ", ".join(canon_expr(t) for t in stmt.targets)
    if isinstance(stmt, ast.Raise):
        return f"raise {canon_expr(stmt.exc)}"
    if isinstance(stmt, ast.Assert):
        return f"assert {canon_expr(stmt.test)}"
    if isinstance(stmt, (ast.Pass, ast.Break, ast.Continue)):
        return type(stmt).__name__
    if isinstance(stmt, (ast.FunctionDef, ast.AsyncFunctionDef)):
        return f"def {stmt.name}: {canon_block(stmt.body, orient_placeholder)}"
    return ast.dump(stmt)


def first_difference(a: List[str], b: List[str]) -> Tuple[str, str]:
    for x, y in zip(a, b):
        if x != y:
            return x, y
    if len(a) != len(b):
        longer = a if len(a) > len(b) else b
        extra = longer[min(len(a), len(b))]
        return (extra, "<nothing>") if longer is a else ("<nothing>", extra)
    return "", ""
