"""Abstract execution of small imperative walks over the relational tree model.

Values: model species (int), None, booleans, opaque tokens (`Token`), records (dict literals with evaluated
entries).  Statements understood: assignments to names, `while` on species comparisons, `for x in
<node>.iter_ancestors()` / `.get_ancestors()`, `for` over a literal tuple of tuples, `if`, `break`, `continue`,
`return`, and expression statements / subscript stores, which are handed to the `effect` callback of the rule.
Everything else is an `AnalysisError` (the walk is not one this interpreter understands).

The code of the package is never run: the interpreter gives `.up`, `.children[k]`, `==`, the ancestor
predicates and the LCA oracle their definitions on the model (fact table, DESIGN section 2.7).
"""
from __future__ import annotations

import ast
from typing import Any, Callable, Dict, List, Optional, Sequence

from .core import AnalysisError, dotted, short
from .relmodel import ANC_METHODS, RelEval, TreeModel, Undefined


class Token:
    """An opaque object (a gene node, a freshly created virtual node...)."""

    _n = 0

    def __init__(self, label: str):
        Token._n += 1
        self.label = label
        self.serial = Token._n

    def __repr__(self) -> str:
        return f"<{self.label}>"


class Unknown:
    """A value the model does not describe (colours, sizes...)."""

    def __repr__(self) -> str:
        return "<?>"


UNKNOWN = Unknown()


class Return(Exception):
    def __init__(self, value: Any):
        self.value = value


class Walk:
    def __init__(
        self,
        model: TreeModel,
        env: Dict[str, Any],
        where: str,
        oracle_names: Sequence[str] = (),
        effect: Optional[Callable[["Walk", ast.stmt], bool]] = None,
        call: Optional[Callable[["Walk", ast.Call], Any]] = None,
        max_steps: int = 4000,
    ):
        self.m = model
        self.env = env
        self.where = where
        self.effect = effect
        self.call = call
        self.steps = 0
        self.max_steps = max_steps
        self.oracles = set(oracle_names)

    # -- values ------------------------------------------------------------
    def value(self, expr: ast.AST) -> Any:
        if isinstance(expr, ast.Constant):
            return expr.value
        if isinstance(expr, ast.Name):
            if expr.id in self.env:
                return self.env[expr.id]
            raise AnalysisError(f"{self.where}: name `{expr.id}` has no value in the walk")
        if isinstance(expr, ast.Attribute) and expr.attr == "up":
            inner = self.value(expr.value)
            if isinstance(inner, int) and not isinstance(inner, bool):
                return self.m.up(inner)
            if inner is None:
                raise Undefined("`.up` of None")
            return UNKNOWN
        if isinstance(expr, ast.Subscript) and isinstance(expr.value, ast.Attribute) and expr.value.attr == "children":
            inner = self.value(expr.value.value)
            if isinstance(inner, int) and isinstance(expr.slice, ast.Constant) and expr.slice.value in (0, 1, -1):
                kids = self.m.children(inner)
                if not kids:
                    raise Undefined("children of a leaf")
                return kids[expr.slice.value]
            if inner is None:
                raise Undefined("`.children` of None")
            return UNKNOWN
        if isinstance(expr, ast.IfExp):
            t = self.truth(expr.test)
            return self.value(expr.body if t else expr.orelse)
        if isinstance(expr, ast.Dict):
            return {k.value if isinstance(k, ast.Constant) else short(k): self.value(v) for k, v in zip(expr.keys, expr.values) if k is not None}
        if isinstance(expr, (ast.Tuple, ast.List)):
            return tuple(self.value(e) for e in expr.elts)
        if isinstance(expr, (ast.Compare, ast.BoolOp)) or (isinstance(expr, ast.UnaryOp) and isinstance(expr.op, ast.Not)):
            return self.truth(expr)
        if isinstance(expr, ast.Call):
            if self.call is not None:
                out = self.call(self, expr)
                if out is not NotImplemented:
                    return out
            fname = dotted(expr.func) or ""
            if isinstance(expr.func, ast.Attribute) and expr.func.attr in ANC_METHODS and fname.split(".")[0] in self.oracles | {n.split(".")[-1] for n in self.oracles}:
                return self.truth(expr)
            if fname in self.oracles and expr.args:
                vals = [self.value(a) for a in expr.args]
                out = vals[0]
                for v in vals[1:]:
                    out = self.m.lca(out, v)
                return out
            if fname == "getattr":
                return UNKNOWN
            return UNKNOWN
        if isinstance(expr, ast.Subscript):
            base = self.value(expr.value)
            if isinstance(base, dict):
                key = self.value(expr.slice)
                if key in base:
                    return base[key]
            return UNKNOWN
        if isinstance(expr, ast.Attribute):
            return UNKNOWN
        raise AnalysisError(f"{self.where}: expression `{short(expr)}` not understood by the walk")

    def truth(self, test: ast.AST) -> bool:
        if isinstance(test, ast.Constant):
            return bool(test.value)
        if isinstance(test, ast.UnaryOp) and isinstance(test.op, ast.Not):
            return not self.truth(test.operand)
        if isinstance(test, ast.BoolOp):
            if isinstance(test.op, ast.And):
                return all(self.truth(v) for v in test.values)
            return any(self.truth(v) for v in test.values)
        if isinstance(test, ast.Compare) and len(test.ops) == 1:
            a, b = self.value(test.left), self.value(test.comparators[0])
            op = test.ops[0]
            if isinstance(a, Unknown) or isinstance(b, Unknown):
                raise AnalysisError(f"{self.where}: the test `{short(test)}` compares a value the model does not describe")
            if isinstance(op, (ast.Eq, ast.Is)):
                return a == b if not (isinstance(a, Token) or isinstance(b, Token)) else a is b
            if isinstance(op, (ast.NotEq, ast.IsNot)):
                return not (a == b if not (isinstance(a, Token) or isinstance(b, Token)) else a is b)
            if isinstance(op, (ast.In, ast.NotIn)) and isinstance(b, (tuple, list, set, frozenset)):
                return (a in b) == isinstance(op, ast.In)
            raise AnalysisError(f"{self.where}: comparison `{short(test)}` not understood by the walk")
        if isinstance(test, ast.Call) and isinstance(test.func, ast.Attribute):
            meth = test.func.attr
            if meth in ANC_METHODS and len(test.args) == 2:
                a, b = self.value(test.args[0]), self.value(test.args[1])
                if isinstance(a, int) and isinstance(b, int):
                    return getattr(self.m, ANC_METHODS[meth])(a, b)
            if meth == "is_leaf" and not test.args:
                v = self.value(test.func.value)
                if isinstance(v, int):
                    return not self.m.children(v)
            if meth == "is_root" and not test.args:
                v = self.value(test.func.value)
                if isinstance(v, int):
                    return self.m.up(v) is None
        if isinstance(test, ast.Name):
            v = self.value(test)
            if isinstance(v, bool) or v is None:
                return bool(v)
            if isinstance(v, (int, Token)):
                return True
        raise AnalysisError(f"{self.where}: test `{short(test)}` not understood by the walk")

    # -- statements --------------------------------------------------------
    def tick(self) -> None:
        self.steps += 1
        if self.steps > self.max_steps:
            raise AnalysisError(f"{self.where}: the walk does not terminate on the model")

    def assign(self, target: ast.AST, val: Any) -> None:
        if isinstance(target, ast.Name):
            self.env[target.id] = val
        elif isinstance(target, (ast.Tuple, ast.List)) and isinstance(val, tuple) and len(val) == len(target.elts):
            for t, v in zip(target.elts, val):
                self.assign(t, v)
        else:
            raise AnalysisError(f"{self.where}: assignment target `{short(target)}` not understood by the walk")

    def block(self, stmts: Sequence[ast.stmt]) -> Optional[str]:
        for st in stmts:
            self.tick()
            if isinstance(st, ast.Expr) and isinstance(st.value, ast.Constant):
                continue
            if self.effect is not None and self.effect(self, st):
                continue
            if isinstance(st, ast.Assign) and len(st.targets) == 1 and isinstance(st.targets[0], (ast.Name, ast.Tuple)):
                self.assign(st.targets[0], self.value(st.value))
            elif isinstance(st, ast.AnnAssign) and st.value is not None and isinstance(st.target, ast.Name):
                self.assign(st.target, self.value(st.value))
            elif isinstance(st, ast.While):
                while self.truth(st.test):
                    self.tick()
                    out = self.block(st.body)
                    if out == "break":
                        break
                else:
                    if st.orelse:
                        out = self.block(st.orelse)
                        if out:
                            return out
            elif isinstance(st, ast.For):
                seq = self.sequence(st.iter)
                broke = False
                for item in seq:
                    self.tick()
                    self.assign(st.target, item)
                    out = self.block(st.body)
                    if out == "break":
                        broke = True
                        break
                if not broke and st.orelse:
                    out = self.block(st.orelse)
                    if out:
                        return out
            elif isinstance(st, ast.If):
                out = self.block(st.body if self.truth(st.test) else st.orelse)
                if out:
                    return out
            elif isinstance(st, ast.Continue):
                return "continue"
            elif isinstance(st, ast.Break):
                return "break"
            elif isinstance(st, ast.Return):
                raise Return(self.value(st.value) if st.value is not None else None)
            elif isinstance(st, ast.Pass):
                continue
            elif isinstance(st, ast.Assert):
                continue
            else:
                raise AnalysisError(f"{self.where}: statement `{short(st, 70)}` not understood by the walk")
        return None

    def sequence(self, it: ast.AST) -> List[Any]:
        if isinstance(it, (ast.Tuple, ast.List)):
            return [self.value(e) for e in it.elts]
        if isinstance(it, ast.Call) and isinstance(it.func, ast.Attribute) and it.func.attr in ("iter_ancestors", "get_ancestors") and not it.args:
            start = self.value(it.func.value)
            if isinstance(start, int):
                out = []
                cur = self.m.up(start)
                while cur is not None:
                    out.append(cur)
                    cur = self.m.up(cur)
                return out
        if isinstance(it, ast.Attribute) and it.attr == "children":
            v = self.value(it.value)
            if isinstance(v, int):
                return list(self.m.children(v))
        raise AnalysisError(f"{self.where}: iteration over `{short(it)}` not understood by the walk")

    def run(self, stmts: Sequence[ast.stmt]) -> Any:
        try:
            self.block(stmts)
        except Return as ret:
            return ret.value
        return None
