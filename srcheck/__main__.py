"""Entry point: python -m srcheck <PROPERTY> [--tier quick|thorough]

exit 0  every obligation discharged (or listed as a known finding)
exit 1  VIOLATION property=<id> replay=<path>   (one line per new violation)
exit 2  ANALYSIS-ERROR ...                      (cannot decide: never a pass)
"""
from __future__ import annotations

import argparse
import json
import os
import sys
import traceback

from .core import VERIF_DIR, AnalysisError, KnownFindings, Program, Timer, write_json
from . import props


class ScopedResult:
    """View of a RuleResult restricted to the constructs in a property's scope."""

    def __init__(self, res, scope):
        self.rule = res.rule
        self.text = res.text
        self.scope = scope
        self.obligations = [o for o in res.obligations if props.in_scope(o.construct, scope)]
        self.findings = [f for f in res.findings if props.in_scope(f.construct, scope)]


def rule_list(prop_id: str):
    if prop_id in props.PROPERTY_RULES:
        return props.PROPERTY_RULES[prop_id]
    return props.DEV_GROUPS[prop_id]


def run_property(prop_id: str, tier: str, prog: Program, cache=None):
    """Run all rules of a property. Returns (scoped results, errors)."""
    results = []
    errors = []
    cache = cache if cache is not None else {}
    for rule_name, scope in rule_list(prop_id):
        fn = props.RULES[rule_name]
        try:
            if rule_name not in cache:
                cache[rule_name] = fn(prog)
            res = cache[rule_name]
            if isinstance(res, Exception):
                raise res
            results.append(ScopedResult(res, scope))
        except AnalysisError as err:
            cache[rule_name] = err
            errors.append(f"{rule_name}: {err}")
        except RecursionError as err:  # pragma: no cover
            errors.append(f"{rule_name}: analyser recursion: {err}")
        except Exception as err:  # analyser bug: fail closed, never a violation
            tb = traceback.format_exc(limit=6)
            errors.append(f"{rule_name}: analyser raised {type(err).__name__}: {err}\n{tb}")
    return results, errors


def main(argv=None) -> int:
    parser = argparse.ArgumentParser(prog="srcheck")
    parser.add_argument("property", nargs="?")
    parser.add_argument("--tier", default=os.environ.get("VERIF_TIER", "quick"), choices=("quick", "thorough"))
    parser.add_argument("--replay")
    parser.add_argument("--src", default=None)
    parser.add_argument("--no-evidence", action="store_true")
    parser.add_argument("--no-canary", action="store_true")
    parser.add_argument("--list", action="store_true")
    parser.add_argument("--verbose", "-v", action="store_true")
    args = parser.parse_args(argv)

    if args.list:
        for pid, rules in props.PROPERTY_RULES.items():
            print(pid, " ".join(r for r, _s in rules))
        return 0

    if args.replay:
        return replay(args.replay, args.src)

    if not args.property:
        parser.error("property id required")
    prop_id = args.property.upper()
    if prop_id not in props.PROPERTY_RULES and prop_id not in props.DEV_GROUPS:
        print(f"ANALYSIS-ERROR property={prop_id} unknown or not claimed (see MANIFEST not_applicable)")
        return 2

    timer = Timer()
    seed = int(os.environ.get("VERIF_SEED", "0") or 0)
    try:
        prog = Program(args.src)
    except AnalysisError as err:
        print(f"ANALYSIS-ERROR property={prop_id} {err}")
        return 2

    results, errors = run_property(prop_id, args.tier, prog)
    known = KnownFindings.load()

    violations = []
    known_hits = []
    for res in results:
        for finding in res.findings:
            text = known.lookup(prop_id, finding)
            if text is not None:
                known_hits.append((finding, text))
            else:
                violations.append(finding)

    # positive examples of the absence rules (every tier)
    canaries = []
    if not args.no_canary:
        from . import mutate as _mutate

        try:
            canary_rules = [r for r, _s in rule_list(prop_id) if r in _mutate.CANARY_RULES]
            canary_errors = _mutate.run_canaries(canary_rules, prog)
            canaries = [r for r in dict.fromkeys(canary_rules)]
            errors.extend(canary_errors)
        except Exception as err:  # noqa: BLE001
            errors.append(f"CANARY: analyser raised {type(err).__name__}: {err}")

    selftest = None
    if args.tier == "thorough" and not errors:
        from . import mutate

        try:
            selftest = mutate.run_selftest(prop_id, prog)
            if prop_id in props.PROPERTY_RULES and not os.environ.get("VERIF_NO_SWEEP"):
                from . import sweep

                selftest["sweep"] = sweep.run_sweep(prop_id, prog)
        except AnalysisError as err:
            errors.append(f"SELFTEST: {err}")
        except Exception as err:  # pragma: no cover
            errors.append(f"SELFTEST: analyser raised {type(err).__name__}: {err}\n{traceback.format_exc(limit=6)}")

    # ---- report -----------------------------------------------------------
    stats = prog.stats()
    n_obl = sum(len(r.obligations) for r in results)
    n_ok = sum(1 for r in results for o in r.obligations if o.ok)
    print(
        f"srcheck {prop_id} tier={args.tier}: analysed {stats['units']} modules, {stats['functions']} functions, "
        f"{stats['lambdas']} lambdas, {stats['call_sites']} call sites under {prog.root}"
    )
    for res in results:
        bad = [o for o in res.obligations if not o.ok]
        print(f"  rule {res.rule}: {len(res.obligations)} obligations, {len(bad)} violated")
        if args.verbose:
            for o in res.obligations:
                print(f"      [{'ok' if o.ok else 'FAIL'}] {o.construct} -- {o.note}")
    viol_dir = os.path.join(VERIF_DIR, "evidence", "violations")
    for finding, text in known_hits:
        print(f"KNOWN-FINDING: property={prop_id} rule={finding.rule} construct={finding.construct} -- {text}")
    for idx, finding in enumerate(violations):
        path = os.path.join(viol_dir, f"{prop_id}-{finding.rule}-{idx}.json")
        if not args.no_evidence:
            write_json(
                path,
                {
                    "property": prop_id,
                    **finding.to_json(),
                    "rule_text": next((r.text for r in results if r.rule == finding.rule), ""),
                    "replay": f"cd /verif && ./check --replay {path}",
                },
            )
        print(f"  {finding.file}:{finding.line}: [{finding.rule}] {finding.construct}: {finding.message}")
        print(f"VIOLATION property={prop_id} replay={path}")
    for err in errors:
        first, _, rest = err.partition("\n")
        print(f"ANALYSIS-ERROR property={prop_id} {first}")
        if rest:
            print(rest)
    if canaries:
        print(f"  canaries: positive example fired for {len(canaries)} absence rule(s): {' '.join(canaries)}")
    if selftest is not None:
        print(
            f"  self-test: {selftest['mutants']} mutants ({selftest['mutants_flagged']} flagged), "
            f"{selftest['twins']} twins ({selftest['twins_silent']} silent)"
        )
        for gap in selftest["gaps"]:
            print(f"SELFTEST-GAP property={prop_id} {gap}")
        if "sweep" in selftest:
            sw = selftest["sweep"]
            print(
                f"  sweep: {sw['mutants_analysed']} generic single-edit mutants of {len(sw['files'])} anchored file(s): "
                f"{sw['flagged']} flagged, {sw['analysis_error']} stopped with an analysis error, {sw['silent']} silent"
            )

    if not args.no_evidence:
        write_evidence(prop_id, args.tier, seed, prog, results, errors, violations, known_hits, selftest, timer, canaries)

    if violations:
        return 1
    if errors:
        return 2
    return 0


def write_evidence(prop_id, tier, seed, prog, results, errors, violations, known_hits, selftest, timer, canaries=()) -> None:
    stats = prog.stats()
    obligations = [o for r in results for o in r.obligations]
    distinct = {(o.rule, o.construct) for o in obligations if o.nontrivial}
    samples = []
    for res in results:
        for o in res.obligations[:3]:
            samples.append(o.to_json())
    info = props.PROPERTY_INFO.get(prop_id, {})
    coverage = {
        "explanation": info.get("explanation", ""),
        "decided": info.get("decided", []),
        "not_decided": info.get("not_decided", []),
        "evaluations": len(obligations),
        "distinct_nontrivial": len(distinct),
        "rule": "one evaluation per rule instance (a call site, path, class polynomial, template or "
        "definition the rule inspects on the current tree); distinct = distinct (rule, construct) pairs; "
        "an instance is non-trivial when the rule had to inspect at least one program construct for it",
        "samples": samples,
        "obligations": len(obligations),
        "discharged": sum(1 for o in obligations if o.ok),
        "checker_cmd": f"cd /verif && ./check {prop_id} --tier {tier}",
        "trusted_base": props.TRUSTED_BASE,
        "rules": [
            {
                "rule": r.rule,
                "text": r.text,
                "instances": len(r.obligations),
                "violated": sum(1 for o in r.obligations if not o.ok),
            }
            for r in results
        ],
        "units": stats["units"],
        "functions": stats["functions"],
        "lambdas": stats["lambdas"],
        "call_sites": stats["call_sites"],
        "unit_digests": stats["unit_digests"],
        "source_root": prog.root,
        "analysis_errors": errors,
        "known_findings_reported": [f.key() for f, _t in known_hits],
        "violations_reported": [f.to_json() for f in violations],
        "exhaustive": True,
    }
    coverage["canaries"] = {
        "rule": "each absence rule (expected number of matches on a healthy tree: zero) is also run on one in-memory "
        "variant of the current source that contains the forbidden construct; it must report it, otherwise the run "
        "is an analysis error",
        "fired": list(canaries),
    }
    if selftest is not None:
        coverage["selftest"] = selftest
    data = {
        "property_id": prop_id,
        "tier": tier,
        "seed": seed,
        "level": "other",
        "coverage": coverage,
        "assumptions": props.ASSUMPTIONS + info.get("assumptions", []),
        "wall_s": timer.elapsed(),
        "violations": len(violations),
    }
    write_json(os.path.join(VERIF_DIR, "evidence", f"{prop_id}.json"), data)


def replay(path: str, src) -> int:
    with open(path, encoding="utf8") as handle:
        data = json.load(handle)
    prop_id, rule, construct = data["property"], data["rule"], data["construct"]
    try:
        prog = Program(src)
        res = props.RULES[rule](prog)
    except AnalysisError as err:
        print(f"ANALYSIS-ERROR property={prop_id} {rule}: {err}")
        return 2
    hits = [f for f in res.findings if f.construct == construct]
    if not hits:
        print(f"replay: rule {rule} no longer reports {construct} on {prog.root}")
        return 0
    for f in hits:
        print(f"{f.file}:{f.line}: [{f.rule}] {f.construct}: {f.message}")
        print(f"VIOLATION property={prop_id} replay={path}")
    return 1


if __name__ == "__main__":
    try:
        sys.exit(main())
    except SystemExit:
        raise
    except BaseException as err:  # noqa: BLE001 -- tracebacks must not look like violations
        print(f"ANALYSIS-ERROR analyser crashed: {type(err).__name__}: {err}")
        traceback.print_exc()
        sys.exit(2)
