"""Linear expressions with max/min atoms over non-negative unknowns, and a small sound prover / refuter of
`E >= 0`.

Used for the box lemmas of the layout (sibling boxes are disjoint and inside their parent): the quantities are
sums of child sizes, spacing parameters and `max(...)` of such sums.

* `prove_nonneg(E)` is sound: it only uses  max(a, b, ..) >= each argument,  min(a, b, ..) <= each argument,
  and  atom >= 0  for the atoms declared non-negative.
* `refute_nonneg(E)` looks for a concrete assignment of small non-negative values to the atoms that makes E
  negative (max / min evaluated exactly): a found assignment is a genuine counter-example of the inequality over
  non-negative unknowns.
A rule reports a violation only when the refuter succeeds and an analysis error when neither succeeds.
"""
from __future__ import annotations

import itertools
from fractions import Fraction
from typing import Callable, Dict, List, Optional, Tuple

from .sym import Poly


class Ctx:
    def __init__(self, nonneg: Callable[[str], bool]):
        self.nonneg = nonneg
        self.ext: Dict[str, Tuple[str, List[Poly]]] = {}  # atom key -> ("max"|"min", args)

    def extremum(self, kind: str, args: List[Poly]) -> Poly:
        # constant folding
        if all(a.is_const() for a in args):
            vals = [a.const_value() for a in args]
            return Poly.const(max(vals) if kind == "max" else min(vals))
        key = f"{kind}[" + " | ".join(sorted(str(a) for a in args)) + "]"
        self.ext[key] = (kind, args)
        return Poly.atom(key)

    # ------------------------------------------------------------------
    def linear_terms(self, p: Poly) -> Optional[Dict[str, Fraction]]:
        out: Dict[str, Fraction] = {}
        for mono, coef in p.terms.items():
            if mono == ():
                out[""] = coef
            elif len(mono) == 1 and mono[0][1] == 1:
                out[mono[0][0]] = coef
            else:
                return None
        return out

    def atom_nonneg(self, key: str, depth: int) -> bool:
        if key in self.ext:
            kind, args = self.ext[key]
            if kind == "max":
                return any(self.prove_nonneg(a, depth + 1) for a in args)
            return all(self.prove_nonneg(a, depth + 1) for a in args)
        return self.nonneg(key)

    def prove_nonneg(self, p: Poly, depth: int = 0) -> bool:
        if depth > 6:
            return False
        terms = self.linear_terms(p)
        if terms is None:
            return False
        if terms.get("", Fraction(0)) >= 0 and all(c >= 0 and self.atom_nonneg(k, depth) for k, c in terms.items() if k):
            return True
        # replace an extremum by a bound that keeps the inequality sound
        for key, coef in terms.items():
            if key in self.ext:
                kind, args = self.ext[key]
                if (kind == "max" and coef > 0) or (kind == "min" and coef < 0):
                    for arg in args:
                        q = p - Poly.atom(key).scale(coef) + arg.scale(coef)
                        if self.prove_nonneg(q, depth + 1):
                            return True
        return False

    # ------------------------------------------------------------------
    def evaluate(self, p: Poly, values: Dict[str, Fraction]) -> Fraction:
        total = Fraction(0)
        for mono, coef in p.terms.items():
            term = coef
            for key, exp in mono:
                term *= self.atom_value(key, values) ** exp
            total += term
        return total

    def atom_value(self, key: str, values: Dict[str, Fraction]) -> Fraction:
        if key in self.ext:
            kind, args = self.ext[key]
            vals = [self.evaluate(a, values) for a in args]
            return max(vals) if kind == "max" else min(vals)
        return values.get(key, Fraction(0))

    def free_atoms(self, p: Poly) -> List[str]:
        seen: List[str] = []

        def visit(q: Poly) -> None:
            for key in q.atom_keys():
                if key in self.ext:
                    for a in self.ext[key][1]:
                        visit(a)
                elif key not in seen:
                    seen.append(key)

        visit(p)
        return seen

    def refute_nonneg(self, p: Poly, free_zero: Callable[[str], bool] = lambda k: False) -> Optional[Dict[str, Fraction]]:
        atoms = [a for a in self.free_atoms(p)]
        moving = [a for a in atoms if not free_zero(a)]
        if len(moving) > 9:
            moving = moving[:9]
        for combo in itertools.product((0, 1, 3), repeat=len(moving)):
            values = {a: Fraction(v) for a, v in zip(moving, combo)}
            if self.evaluate(p, values) < 0:
                return values
        return None
