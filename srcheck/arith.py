"""Evaluation of pure integer expressions over a small finite domain (decision tables of index arithmetic).

Only the analyser's own interpreter runs: an expression tree made of integer literals, names bound by the
table, + - * // % ** << >>, comparisons are not needed; calls are limited to int.bit_length, max/min/abs/int,
math.log2/ceil/floor and module-level functions of the analysed module whose body is a single `return <expr>`
(they are inlined).  Anything else raises `Unsupported`: the caller reports an analysis error, never a verdict.
"""
from __future__ import annotations

import ast
import math
from typing import Callable, Dict, Optional

from .core import dotted


class Unsupported(Exception):
    pass


class EvalError(Exception):
    """The expression itself fails on this input (e.g. log2(0))."""


def evaluate(expr: ast.AST, env: Dict[str, int], funcs: Optional[Dict[str, ast.FunctionDef]] = None, depth: int = 0) -> float:
    funcs = funcs or {}
    if depth > 6:
        raise Unsupported("call depth")
    ev = lambda e: evaluate(e, env, funcs, depth)  # noqa: E731
    if isinstance(expr, ast.Constant) and isinstance(expr.value, (int, float)) and not isinstance(expr.value, bool):
        return expr.value
    if isinstance(expr, ast.Name):
        if expr.id in env:
            return env[expr.id]
        raise Unsupported(f"name {expr.id}")
    if isinstance(expr, ast.UnaryOp) and isinstance(expr.op, (ast.USub, ast.UAdd)):
        v = ev(expr.operand)
        return -v if isinstance(expr.op, ast.USub) else v
    if isinstance(expr, ast.BinOp):
        a, b = ev(expr.left), ev(expr.right)
        try:
            if isinstance(expr.op, ast.Add):
                return a + b
            if isinstance(expr.op, ast.Sub):
                return a - b
            if isinstance(expr.op, ast.Mult):
                return a * b
            if isinstance(expr.op, ast.FloorDiv):
                return a // b
            if isinstance(expr.op, ast.Div):
                return a / b
            if isinstance(expr.op, ast.Mod):
                return a % b
            if isinstance(expr.op, ast.Pow):
                if abs(b) > 64:
                    raise Unsupported("large exponent")
                return a ** b
            if isinstance(expr.op, ast.LShift):
                if b < 0 or b > 64:
                    raise EvalError("negative shift")
                return int(a) << int(b)
            if isinstance(expr.op, ast.RShift):
                if b < 0:
                    raise EvalError("negative shift")
                return int(a) >> int(b)
        except (ZeroDivisionError, ValueError, OverflowError) as err:
            raise EvalError(str(err))
        raise Unsupported(type(expr.op).__name__)
    if isinstance(expr, ast.Call):
        fname = dotted(expr.func) or ""
        last = fname.split(".")[-1]
        if isinstance(expr.func, ast.Attribute) and expr.func.attr == "bit_length" and not expr.args:
            v = ev(expr.func.value)
            if v != int(v):
                raise EvalError("bit_length of a non-integer")
            return int(v).bit_length()
        args = [ev(a) for a in expr.args]
        if expr.keywords:
            raise Unsupported("keyword arguments")
        try:
            if fname in ("max", "min") and args:
                return max(args) if fname == "max" else min(args)
            if fname == "abs" and len(args) == 1:
                return abs(args[0])
            if fname == "int" and len(args) == 1:
                return int(args[0])
            if last == "log2" and len(args) == 1:
                return math.log2(args[0])
            if last == "ceil" and len(args) == 1:
                return math.ceil(args[0])
            if last == "floor" and len(args) == 1:
                return math.floor(args[0])
            if last == "log" and len(args) == 2:
                return math.log(args[0], args[1])
        except (ValueError, OverflowError, ZeroDivisionError) as err:
            raise EvalError(str(err))
        if fname in funcs:
            fn = funcs[fname]
            body = [st for st in fn.body if not (isinstance(st, ast.Expr) and isinstance(st.value, ast.Constant))]
            params = [a.arg for a in fn.args.args]
            body = [st for st in body if not isinstance(st, ast.Assert)]  # assertions state facts, they compute nothing
            if len(body) == 1 and isinstance(body[0], ast.Return) and body[0].value is not None and len(params) == len(args):
                return evaluate(body[0].value, dict(zip(params, args)), funcs, depth + 1)
        raise Unsupported(f"call {fname or ast.dump(expr.func)[:40]}")
    if isinstance(expr, ast.IfExp):
        raise Unsupported("conditional expression")
    raise Unsupported(type(expr).__name__)
