"""Canonical syntax: behaviour-preserving spellings are brought to ONE form when a module is loaded.

Every rule then sees the same tree for

    b > a                      ->  a < b                 (also >=; single comparisons; with a literal on one
                                                          side the literal goes right instead: 0 <= x -> x >= 0)
    LITERAL == x               ->  x == LITERAL          (also !=, is, is not; LITERAL: a constant, None or an
                                                          attribute of a capitalised name such as NodeEvent.LEAF)
    not a == b                 ->  a != b                (also is / in and their negations; never for < <= on
                                                          which `not` is not the reverse order: sets, NaN)
    X if not c else Y          ->  Y if c else X
    X if a != b else Y         ->  Y if a == b else X    (also `is not`, `not in`)
    if not c: A else: B        ->  if c: B else: A       (same for != / is not / not in tests; only with an else)
    f(p=a, q=b)                ->  f(a, b)               (module-level functions whose name is unique in the
                                                          package, when the keywords cover a prefix of the parameters)
    t = <expr>; return t       ->  return <expr>         (t a plain local: not global / nonlocal, not captured)
    n = n + e / n = e + n      ->  n += e                (n a local initialised with a number in that function;
                                                          also n = n - e)

Positions of the original nodes are kept, so reports still point at the source line.  `tools/equiv_probe.py`
applies the inverse rewrites to every module and checks that every rule stays silent.
"""
from __future__ import annotations

import ast
from typing import Dict, List, Optional, Sequence

FLIP = {ast.Gt: ast.Lt, ast.GtE: ast.LtE}
NEGATE = {ast.Eq: ast.NotEq, ast.NotEq: ast.Eq, ast.Is: ast.IsNot, ast.IsNot: ast.Is, ast.In: ast.NotIn, ast.NotIn: ast.In}
NEGATIVE = (ast.NotEq, ast.IsNot, ast.NotIn)


def _literalish(node: ast.AST) -> bool:
    if isinstance(node, ast.Constant):
        return True
    if isinstance(node, ast.UnaryOp) and isinstance(node.op, ast.USub) and isinstance(node.operand, ast.Constant):
        return True
    cur = node
    if isinstance(cur, ast.Attribute):
        while isinstance(cur, ast.Attribute):
            cur = cur.value
        return isinstance(cur, ast.Name) and cur.id[:1].isupper()
    if isinstance(node, ast.Name) and node.id[:1].isupper():
        return True  # a class or a constant
    return False


def _positive(test: ast.AST) -> Optional[ast.AST]:
    """the test whose negation `test` is, when `test` is spelled negatively"""
    if isinstance(test, ast.UnaryOp) and isinstance(test.op, ast.Not):
        return test.operand
    if isinstance(test, ast.Compare) and len(test.ops) == 1 and isinstance(test.ops[0], NEGATIVE):
        return ast.copy_location(ast.Compare(left=test.left, ops=[NEGATE[type(test.ops[0])]()], comparators=test.comparators), test)
    return None


class Canon(ast.NodeTransformer):
    def __init__(self, signatures: Dict[str, List[str]]):
        self.signatures = signatures
        self.numeric: List[set] = [set()]

    # -- expressions -----------------------------------------------------------
    def visit_Compare(self, node: ast.Compare):
        node = self.generic_visit(node)
        if len(node.ops) != 1:
            return node
        op = node.ops[0]
        left, right = node.left, node.comparators[0]
        if isinstance(op, (ast.Lt, ast.LtE, ast.Gt, ast.GtE)):
            mirror = {ast.Lt: ast.Gt, ast.LtE: ast.GtE, ast.Gt: ast.Lt, ast.GtE: ast.LtE}[type(op)]
            if _literalish(left) != _literalish(right):
                # a literal goes to the right: `0 <= x` -> `x >= 0`
                if _literalish(left):
                    return ast.copy_location(ast.Compare(left=right, ops=[mirror()], comparators=[left]), node)
                return node
            if type(op) in FLIP:
                return ast.copy_location(ast.Compare(left=right, ops=[mirror()], comparators=[left]), node)
            return node
        if isinstance(op, (ast.Eq, ast.NotEq, ast.Is, ast.IsNot)) and _literalish(left) and not _literalish(right):
            return ast.copy_location(ast.Compare(left=right, ops=[op], comparators=[left]), node)
        return node

    def visit_UnaryOp(self, node: ast.UnaryOp):
        node = self.generic_visit(node)
        if isinstance(node.op, ast.Not):
            inner = node.operand
            if isinstance(inner, ast.Compare) and len(inner.ops) == 1 and type(inner.ops[0]) in NEGATE:
                return ast.copy_location(ast.Compare(left=inner.left, ops=[NEGATE[type(inner.ops[0])]()], comparators=inner.comparators), node)
            if isinstance(inner, ast.UnaryOp) and isinstance(inner.op, ast.Not) and isinstance(inner.operand, (ast.Compare, ast.BoolOp)):
                return inner.operand
        return node

    def visit_IfExp(self, node: ast.IfExp):
        node = self.generic_visit(node)
        pos = _positive(node.test)
        if pos is not None:
            return ast.copy_location(ast.IfExp(test=pos, body=node.orelse, orelse=node.body), node)
        return node

    def visit_Call(self, node: ast.Call):
        node = self.generic_visit(node)
        if isinstance(node.func, ast.Name) and node.func.id in self.signatures and node.keywords and not any(isinstance(a, ast.Starred) for a in node.args):
            params = self.signatures[node.func.id]
            given = {k.arg: k.value for k in node.keywords if k.arg is not None}
            if len(given) == len(node.keywords):
                args = list(node.args)
                rest = dict(given)
                for p in params[len(args):]:
                    if p in rest:
                        args.append(rest.pop(p))
                    else:
                        break
                if len(args) > len(node.args):
                    kws = [k for k in node.keywords if k.arg in rest]
                    return ast.copy_location(ast.Call(func=node.func, args=args, keywords=kws), node)
        return node

    # -- statements ------------------------------------------------------------
    def visit_If(self, node: ast.If):
        node = self.generic_visit(node)
        if node.orelse:
            pos = _positive(node.test)
            if pos is not None:
                return ast.copy_location(ast.If(test=pos, body=node.orelse, orelse=node.body), node)
        return node

    def _function(self, node):
        nums = set()
        for st in ast.walk(node):
            if isinstance(st, ast.Assign) and isinstance(st.value, ast.Constant) and isinstance(st.value.value, (int, float)) and not isinstance(st.value.value, bool):
                nums.update(t.id for t in st.targets if isinstance(t, ast.Name))
        self.numeric.append(nums)
        node = self.generic_visit(node)
        self.numeric.pop()
        _inline_return_locals(node)
        return node

    visit_FunctionDef = _function
    visit_AsyncFunctionDef = _function

    def visit_Assign(self, node: ast.Assign):
        node = self.generic_visit(node)
        if len(node.targets) == 1 and isinstance(node.targets[0], ast.Name) and node.targets[0].id in self.numeric[-1]:
            name = node.targets[0].id
            val = node.value
            if isinstance(val, ast.BinOp) and isinstance(val.op, (ast.Add, ast.Sub)):
                if isinstance(val.left, ast.Name) and val.left.id == name:
                    return ast.copy_location(ast.AugAssign(target=ast.Name(id=name, ctx=ast.Store()), op=val.op, value=val.right), node)
                if isinstance(val.op, ast.Add) and isinstance(val.right, ast.Name) and val.right.id == name:
                    return ast.copy_location(ast.AugAssign(target=ast.Name(id=name, ctx=ast.Store()), op=val.op, value=val.left), node)
        return node


def _inline_return_locals(fn: ast.AST) -> None:
    """`t = <expr>; return t` -> `return <expr>`: nothing can read t between the two statements or after the
    return, unless t is global / nonlocal or captured by a nested function"""
    shared = set()
    for n in ast.walk(fn):
        if isinstance(n, (ast.Global, ast.Nonlocal)):
            shared.update(n.names)
        elif n is not fn and isinstance(n, (ast.FunctionDef, ast.AsyncFunctionDef, ast.Lambda, ast.GeneratorExp)):
            shared.update(x.id for x in ast.walk(n) if isinstance(x, ast.Name))

    def block(stmts: List[ast.stmt]) -> None:
        i = 0
        while i + 1 < len(stmts):
            a, b = stmts[i], stmts[i + 1]
            if (
                isinstance(a, ast.Assign) and len(a.targets) == 1 and isinstance(a.targets[0], ast.Name)
                and isinstance(b, ast.Return) and isinstance(b.value, ast.Name) and b.value.id == a.targets[0].id
                and a.targets[0].id not in shared
            ):
                stmts[i:i + 2] = [ast.copy_location(ast.Return(value=a.value), b)]
                continue
            i += 1

    for n in ast.walk(fn):
        for fname in ("body", "orelse", "finalbody"):
            blk = getattr(n, fname, None)
            if isinstance(blk, list) and blk and isinstance(blk[0], ast.stmt):
                block(blk)
        if isinstance(n, ast.Try):
            for h in n.handlers:
                block(h.body)


def package_signatures(trees: Sequence[ast.Module]) -> Dict[str, List[str]]:
    """module-level functions a bare name `f(...)` can only refer to: the name is defined once at the top level
    of the package's modules and is not also the name of a class, of a nested function or of an assigned variable
    (methods do not matter: they are reached through an attribute)"""
    seen: Dict[str, List[str]] = {}
    dup = set()
    for tree in trees:
        for st in tree.body:
            if isinstance(st, (ast.FunctionDef, ast.AsyncFunctionDef)):
                if st.name in seen or st.args.vararg or st.args.posonlyargs:
                    dup.add(st.name)
                seen[st.name] = [a.arg for a in st.args.args]
    for tree in trees:
        top = {id(st) for st in tree.body}
        methods = {id(m) for c in ast.walk(tree) if isinstance(c, ast.ClassDef) for m in c.body}
        for st in ast.walk(tree):
            if isinstance(st, ast.ClassDef):
                dup.add(st.name)
            elif isinstance(st, (ast.FunctionDef, ast.AsyncFunctionDef)) and id(st) not in top and id(st) not in methods:
                dup.add(st.name)
            elif isinstance(st, ast.Name) and isinstance(st.ctx, ast.Store):
                dup.add(st.id)
            elif isinstance(st, ast.arg):
                dup.add(st.arg)
    return {k: v for k, v in seen.items() if k not in dup}


def canonicalise(tree: ast.Module, signatures: Dict[str, List[str]]) -> ast.Module:
    tree = Canon(signatures).visit(tree)
    ast.fix_missing_locations(tree)
    return tree
