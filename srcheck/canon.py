"""Canonical syntax: behaviour-preserving spellings are brought to ONE form when a module is loaded.

Every rule then sees the same tree for

    b > a                      ->  a < b                 (also >=; single comparisons; with a literal on one
                                                          side the literal goes right instead: 0 <= x -> x >= 0)
    LITERAL == x               ->  x == LITERAL          (also !=, is, is not; LITERAL: a constant, None or an
                                                          attribute of a capitalised name such as NodeEvent.LEAF)
    not a == b                 ->  a != b                (also is / in and their negations; never for < <= on
                                                          which `not` is not the reverse order: sets, NaN)
    X if not c else Y          ->  Y if c else X
    X if a != b else Y         ->  Y if a == b else X    (also `is not`, `not in`)
    if not c: A else: B        ->  if c: B else: A       (same for != / is not / not in tests; only with an else)
    f(p=a, q=b)                ->  f(a, b)               (module-level functions whose name is unique in the
                                                          package, when the keywords cover a prefix of the parameters)
    t = <expr>; return t       ->  return <expr>         (t a plain local: not global / nonlocal, not captured)
    n = n + e / n = e + n      ->  n += e                (n a local initialised with a number in that function;
                                                          also n = n - e)

    not (a or b)               ->  not a and not b       (and dually; `not not x` vanishes where only the truth
                                                          value of x matters: tests of if / while / conditional
                                                          expressions)
    t = g(..); f(t, ..)        ->  f(g(..), ..)          (t a plain local used nowhere else; first argument of the
                                                          top-level call of the next statement, so the order of
                                                          evaluation is unchanged)

    if c: ..exit  else: REST   ->  if c: ..exit; REST    (no else after a branch that always leaves)
    self.n = self.n - 1        ->  self.n -= 1           (integer constant)

    set(x for ..) / list(x for ..) / dict((k, v) for ..)  ->  {x for ..} / [x for ..] / {k: v for ..}
    dict() / list() / tuple()  ->  {} / [] / ()

    x: T = e                   ->  x = e                 (locals and module variables; class-level field declarations stay)

    NAME = "literal" (module level, bound once)  ->  every read of NAME in the module is the literal

    X | None, A | B, list[X]   ->  Optional[X], Union[A, B], List[X]   (inside annotations of parameters / returns)

Positions of the original nodes are kept, so reports still point at the source line.  `tools/equiv_probe.py`
applies the inverse rewrites to every module and checks that every rule stays silent.
"""
from __future__ import annotations

import ast
import copy
from typing import Dict, List, Optional, Sequence

FLIP = {ast.Gt: ast.Lt, ast.GtE: ast.LtE}
NEGATE = {ast.Eq: ast.NotEq, ast.NotEq: ast.Eq, ast.Is: ast.IsNot, ast.IsNot: ast.Is, ast.In: ast.NotIn, ast.NotIn: ast.In}
NEGATIVE = (ast.NotEq, ast.IsNot, ast.NotIn)


def _literalish(node: ast.AST) -> bool:
    if isinstance(node, ast.Constant):
        return True
    if isinstance(node, ast.UnaryOp) and isinstance(node.op, ast.USub) and isinstance(node.operand, ast.Constant):
        return True
    cur = node
    if isinstance(cur, ast.Attribute):
        while isinstance(cur, ast.Attribute):
            cur = cur.value
        return isinstance(cur, ast.Name) and cur.id[:1].isupper()
    if isinstance(node, ast.Name) and node.id[:1].isupper():
        return True  # a class or a constant
    return False


def _is_children(expr: ast.AST) -> bool:
    """`x.children`: in this package only ete3 tree nodes carry that attribute, and `x.is_leaf()` is defined as
    `len(x.children) == 0`"""
    return isinstance(expr, ast.Attribute) and expr.attr == "children" and isinstance(expr.ctx, ast.Load)


def _is_leaf_call(children: ast.Attribute) -> ast.AST:
    return ast.copy_location(ast.Call(func=ast.copy_location(ast.Attribute(value=children.value, attr="is_leaf", ctx=ast.Load()), children), args=[], keywords=[]), children)


def _not(expr: ast.AST) -> ast.AST:
    """canonical negation of an expression that is only looked at for its truth value (or is a bool already)"""
    if _is_children(expr):
        return _is_leaf_call(expr)  # `not x.children` is `x.is_leaf()`
    if isinstance(expr, ast.UnaryOp) and isinstance(expr.op, ast.Not):
        return _truth_form(expr.operand)
    if isinstance(expr, ast.Compare) and len(expr.ops) == 1 and type(expr.ops[0]) in NEGATE:
        return ast.copy_location(ast.Compare(left=expr.left, ops=[NEGATE[type(expr.ops[0])]()], comparators=expr.comparators), expr)
    if isinstance(expr, ast.BoolOp):
        op = ast.And() if isinstance(expr.op, ast.Or) else ast.Or()
        return ast.copy_location(ast.BoolOp(op=op, values=[_not(v) for v in expr.values]), expr)
    return ast.copy_location(ast.UnaryOp(op=ast.Not(), operand=expr), expr)


def _truth_form(expr: ast.AST) -> ast.AST:
    """`expr` in a position where only its truth value matters (test of if / while / conditional expression,
    operand of `not`): double negations vanish, `not` is distributed over and / or"""
    if isinstance(expr, ast.UnaryOp) and isinstance(expr.op, ast.Not):
        return _not(expr.operand)
    if isinstance(expr, ast.BoolOp):
        return ast.copy_location(ast.BoolOp(op=expr.op, values=[_truth_form(v) for v in expr.values]), expr)
    if _is_children(expr):
        return ast.copy_location(ast.UnaryOp(op=ast.Not(), operand=_is_leaf_call(expr)), expr)
    return expr


def _format_to_fstring(call: ast.Call) -> Optional[ast.AST]:
    """`"S{}".format(n)` -> f"S{n}": fields without conversion or format spec, numbered automatically, by position
    or by keyword, each argument used exactly once and in the order given (so evaluation order is unchanged)"""
    import string

    if any(isinstance(a, ast.Starred) for a in call.args) or any(k.arg is None for k in call.keywords):
        return None
    try:
        fields = list(string.Formatter().parse(call.func.value.value))
    except ValueError:
        return None
    values: List[ast.AST] = []
    used: List[int] = []
    auto = 0
    everything = list(call.args) + [k.value for k in call.keywords]
    names = {k.arg: len(call.args) + i for i, k in enumerate(call.keywords)}
    for literal, field, spec, conv in fields:
        if literal:
            values.append(ast.Constant(value=literal))
        if field is None:
            continue
        if spec or conv:
            return None
        if field == "":
            idx = auto
            auto += 1
        elif field.isdigit():
            idx = int(field)
        elif field in names:
            idx = names[field]
        else:
            return None
        if idx >= len(everything):
            return None
        used.append(idx)
        values.append(ast.FormattedValue(value=everything[idx], conversion=-1, format_spec=None))
    if used != list(range(len(everything))):
        return None
    return ast.JoinedStr(values=values)


def _call_free(node: ast.AST) -> bool:
    return not any(isinstance(x, (ast.Call, ast.Await, ast.Yield, ast.YieldFrom, ast.NamedExpr)) for x in ast.walk(node))


def _all_negative(test: ast.AST) -> bool:
    if isinstance(test, ast.UnaryOp) and isinstance(test.op, ast.Not):
        return True
    if isinstance(test, ast.Compare) and len(test.ops) == 1 and isinstance(test.ops[0], NEGATIVE):
        return True
    if isinstance(test, ast.BoolOp):
        return all(_all_negative(v) for v in test.values)
    return False


def _positive(test: ast.AST) -> Optional[ast.AST]:
    """the test whose negation `test` is, when `test` is spelled negatively"""
    if isinstance(test, ast.BoolOp) and _all_negative(test):
        return _not(test)  # `not a or not b` is the negation of `a and b`
    if isinstance(test, ast.UnaryOp) and isinstance(test.op, ast.Not):
        return test.operand
    if isinstance(test, ast.Compare) and len(test.ops) == 1 and isinstance(test.ops[0], NEGATIVE):
        return ast.copy_location(ast.Compare(left=test.left, ops=[NEGATE[type(test.ops[0])]()], comparators=test.comparators), test)
    return None


PEP585_BACK = {"list": "List", "dict": "Dict", "set": "Set", "tuple": "Tuple", "frozenset": "FrozenSet", "type": "Type"}


def _canon_annotation(node: ast.AST) -> ast.AST:
    """annotations in the spelling of `typing`: `X | None` -> Optional[X], `A | B` -> Union[A, B], `list[X]` -> List[X]"""

    def flatten(n: ast.AST) -> List[ast.AST]:
        if isinstance(n, ast.BinOp) and isinstance(n.op, ast.BitOr):
            return flatten(n.left) + flatten(n.right)
        return [n]

    class T(ast.NodeTransformer):
        def visit_BinOp(self, n: ast.BinOp):
            if isinstance(n.op, ast.BitOr):
                parts = [self.visit(p) for p in flatten(n)]
                nones = [p for p in parts if isinstance(p, ast.Constant) and p.value is None]
                rest = [p for p in parts if not (isinstance(p, ast.Constant) and p.value is None)]
                inner = rest[0] if len(rest) == 1 else ast.Subscript(value=ast.Name(id="Union", ctx=ast.Load()), slice=ast.Tuple(elts=rest, ctx=ast.Load()), ctx=ast.Load())
                if nones:
                    inner = ast.Subscript(value=ast.Name(id="Optional", ctx=ast.Load()), slice=inner, ctx=ast.Load())
                return ast.copy_location(inner, n)
            return self.generic_visit(n)

        def visit_Subscript(self, n: ast.Subscript):
            n = self.generic_visit(n)
            if isinstance(n.value, ast.Name) and n.value.id in PEP585_BACK:
                n.value = ast.copy_location(ast.Name(id=PEP585_BACK[n.value.id], ctx=ast.Load()), n.value)
            return n

    out = T().visit(node)
    ast.fix_missing_locations(out)
    return out


class Canon(ast.NodeTransformer):
    def __init__(self, signatures: Dict[str, List[str]]):
        self.signatures = signatures
        self.numeric: List[set] = [set()]
        self.shadowed: set = set()  # builtin names rebound somewhere in the module (set per module by canonicalise)

    # -- expressions -----------------------------------------------------------
    def visit_Compare(self, node: ast.Compare):
        node = self.generic_visit(node)
        if len(node.ops) != 1:
            return node
        op = node.ops[0]
        left, right = node.left, node.comparators[0]
        if (isinstance(left, ast.Call) and isinstance(left.func, ast.Name) and left.func.id == "len" and len(left.args) == 1 and _is_children(left.args[0])
                and isinstance(right, ast.Constant) and right.value == 0 and not isinstance(right.value, bool)):
            # `len(x.children) == 0` is the body of ete3's is_leaf()
            if isinstance(op, ast.Eq):
                return _is_leaf_call(left.args[0])
            if isinstance(op, (ast.NotEq, ast.Gt)):
                return ast.copy_location(ast.UnaryOp(op=ast.Not(), operand=_is_leaf_call(left.args[0])), node)
        if isinstance(op, (ast.Lt, ast.LtE, ast.Gt, ast.GtE)):
            mirror = {ast.Lt: ast.Gt, ast.LtE: ast.GtE, ast.Gt: ast.Lt, ast.GtE: ast.LtE}[type(op)]
            if _literalish(left) != _literalish(right):
                # a literal goes to the right: `0 <= x` -> `x >= 0`
                if _literalish(left):
                    return ast.copy_location(ast.Compare(left=right, ops=[mirror()], comparators=[left]), node)
                return node
            if type(op) in FLIP:
                return ast.copy_location(ast.Compare(left=right, ops=[mirror()], comparators=[left]), node)
            return node
        if isinstance(op, (ast.Eq, ast.NotEq, ast.Is, ast.IsNot)) and _literalish(left) and not _literalish(right):
            return ast.copy_location(ast.Compare(left=right, ops=[op], comparators=[left]), node)
        return node

    def visit_UnaryOp(self, node: ast.UnaryOp):
        node = self.generic_visit(node)
        if isinstance(node.op, ast.Not):
            inner = node.operand
            if _is_children(inner):
                return _is_leaf_call(inner)
            if isinstance(inner, ast.Compare) and len(inner.ops) == 1 and type(inner.ops[0]) in NEGATE:
                return ast.copy_location(ast.Compare(left=inner.left, ops=[NEGATE[type(inner.ops[0])]()], comparators=inner.comparators), node)
            if isinstance(inner, ast.UnaryOp) and isinstance(inner.op, ast.Not) and isinstance(inner.operand, (ast.Compare, ast.BoolOp)):
                return inner.operand
            if isinstance(inner, ast.BoolOp):
                # De Morgan: the operand of `not` only matters by its truth value, and the result is a bool either way
                return ast.copy_location(_not(inner), node)
        return node

    def visit_While(self, node: ast.While):
        node = self.generic_visit(node)
        node.test = _truth_form(node.test)
        return self._guard_form(node)

    def visit_For(self, node: ast.For):
        node = self.generic_visit(node)
        return self._guard_form(node)

    visit_AsyncFor = visit_For

    def _guard_form(self, node):
        """`for ..: if c: BODY` (the conditional is the whole loop body, no else) -> `if not c: continue; BODY`"""
        # (not applied: rules that care accept both forms; converting changes the polarity under which every
        # statement of the body is guarded, which costs more than it buys)
        return node

    def visit_IfExp(self, node: ast.IfExp):
        node = self.generic_visit(node)
        node.test = _truth_form(node.test)
        pos = _positive(node.test)
        if pos is not None:
            node = ast.copy_location(ast.IfExp(test=pos, body=node.orelse, orelse=node.body), node)
        chosen = self._min_max(node.test, node.body, node.orelse)
        if chosen is not None:
            return ast.copy_location(chosen, node)
        return node

    def _min_max(self, test: ast.AST, body: ast.AST, orelse: ast.AST) -> Optional[ast.AST]:
        """`x if x <= y else y` is min(x, y), `y if x <= y else x` is max(y, x) (ties resolved as the builtin does:
        the first argument wins); the operands must not contain calls, they are evaluated twice in the spelled form"""
        if not (isinstance(test, ast.Compare) and len(test.ops) == 1 and isinstance(test.ops[0], (ast.Lt, ast.LtE))):
            return None
        if "min" in self.shadowed or "max" in self.shadowed:
            return None
        x, y = test.left, test.comparators[0]
        if not (_call_free(x) and _call_free(y)):
            return None
        dx, dy, db, do = ast.dump(x), ast.dump(y), ast.dump(body), ast.dump(orelse)
        if dx == dy:
            return None
        strict = isinstance(test.ops[0], ast.Lt)
        if db == dx and do == dy:  # the smaller one
            name, args = "min", ([y, x] if strict else [x, y])
        elif db == dy and do == dx:  # the larger one
            name, args = "max", ([x, y] if strict else [y, x])
        else:
            return None
        return ast.Call(func=ast.Name(id=name, ctx=ast.Load()), args=args, keywords=[])

    def visit_Call(self, node: ast.Call):
        node = self.generic_visit(node)
        # dict() / list() / tuple() without arguments are the empty displays
        if isinstance(node.func, ast.Name) and node.func.id in ("dict", "list", "tuple") and node.func.id not in self.shadowed and not node.args and not node.keywords:
            empty = {"dict": ast.Dict(keys=[], values=[]), "list": ast.List(elts=[], ctx=ast.Load()), "tuple": ast.Tuple(elts=[], ctx=ast.Load())}[node.func.id]
            return ast.copy_location(empty, node)
        # "..{}..".format(a, b) with plain fields is the f-string
        if isinstance(node.func, ast.Attribute) and node.func.attr == "format" and isinstance(node.func.value, ast.Constant) and isinstance(node.func.value.value, str):
            joined = _format_to_fstring(node)
            if joined is not None:
                return ast.copy_location(joined, node)
        # min([a, b]) / max((a, b)) over a display of two or more items is min(a, b)
        if (isinstance(node.func, ast.Name) and node.func.id in ("min", "max") and node.func.id not in self.shadowed and len(node.args) == 1 and not node.keywords
                and isinstance(node.args[0], (ast.List, ast.Tuple)) and len(node.args[0].elts) >= 2 and not any(isinstance(e, ast.Starred) for e in node.args[0].elts)):
            return ast.copy_location(ast.Call(func=node.func, args=list(node.args[0].elts), keywords=[]), node)
        # set(x for ..) / list(x for ..) / dict((k, v) for ..) are the comprehension displays
        if isinstance(node.func, ast.Name) and node.func.id in ("set", "list", "dict") and node.func.id not in self.shadowed and len(node.args) == 1 and not node.keywords and isinstance(node.args[0], ast.GeneratorExp):
            gen = node.args[0]
            if node.func.id == "set":
                return ast.copy_location(ast.SetComp(elt=gen.elt, generators=gen.generators), node)
            if node.func.id == "list":
                return ast.copy_location(ast.ListComp(elt=gen.elt, generators=gen.generators), node)
            if isinstance(gen.elt, ast.Tuple) and len(gen.elt.elts) == 2:
                return ast.copy_location(ast.DictComp(key=gen.elt.elts[0], value=gen.elt.elts[1], generators=gen.generators), node)
        if isinstance(node.func, ast.Name) and node.func.id in self.signatures and node.keywords and not any(isinstance(a, ast.Starred) for a in node.args):
            params = self.signatures[node.func.id]
            given = {k.arg: k.value for k in node.keywords if k.arg is not None}
            if len(given) == len(node.keywords):
                args = list(node.args)
                rest = dict(given)
                for p in params[len(args):]:
                    if p in rest:
                        args.append(rest.pop(p))
                    else:
                        break
                if len(args) > len(node.args):
                    kws = [k for k in node.keywords if k.arg in rest]
                    return ast.copy_location(ast.Call(func=node.func, args=args, keywords=kws), node)
        return node

    # -- statements ------------------------------------------------------------
    def visit_If(self, node: ast.If):
        node = self.generic_visit(node)
        node.test = _truth_form(node.test)
        if not node.orelse and len(node.body) == 1 and isinstance(node.body[0], ast.Assign) and len(node.body[0].targets) == 1 and isinstance(node.body[0].targets[0], ast.Name):
            # `if e < v: v = e` keeps the running minimum: `v = min(v, e)`
            target, value = node.body[0].targets[0], node.body[0].value
            keep = ast.copy_location(ast.Name(id=target.id, ctx=ast.Load()), target)
            chosen = self._min_max(node.test, value, keep)
            if chosen is not None and isinstance(node.test, ast.Compare) and {ast.dump(node.test.left), ast.dump(node.test.comparators[0])} == {ast.dump(value), ast.dump(keep)}:
                return ast.copy_location(ast.Assign(targets=[target], value=chosen), node)
        if node.orelse:
            jump = lambda blk: len(blk) == 1 and isinstance(blk[0], (ast.Continue, ast.Break))  # noqa: E731
            leave = lambda blk: len(blk) == 1 and isinstance(blk[0], (ast.Continue, ast.Break, ast.Return, ast.Raise))  # noqa: E731
            ends = lambda blk: bool(blk) and isinstance(blk[-1], (ast.Continue, ast.Break, ast.Return, ast.Raise))  # noqa: E731
            if jump(node.body) or (leave(node.body) and ends(node.orelse)):
                return node  # `if c: <leave>  else: REST` becomes `if c: <leave>; REST` below, whatever the spelling of c
            if jump(node.orelse) or (leave(node.orelse) and ends(node.body)):
                # the short way out comes first: `if c: A else: continue` / `if c: ..; return r  else: return []`
                return ast.copy_location(ast.If(test=_not(node.test), body=node.orelse, orelse=node.body), node)
            pos = _positive(node.test)
            if pos is not None:
                node = ast.copy_location(ast.If(test=pos, body=node.orelse, orelse=node.body), node)
        return node

    def _function(self, node):
        nums = set()
        for st in ast.walk(node):
            if isinstance(st, ast.Assign) and isinstance(st.value, ast.Constant) and isinstance(st.value.value, (int, float)) and not isinstance(st.value.value, bool):
                nums.update(t.id for t in st.targets if isinstance(t, ast.Name))
        self.numeric.append(nums)
        node = self.generic_visit(node)
        self.numeric.pop()
        _loops_to_comprehensions(node)
        _inline_return_locals(node)
        _inline_single_use_defs(node)
        for a in node.args.posonlyargs + node.args.args + node.args.kwonlyargs:
            if a.annotation is not None and not isinstance(a.annotation, ast.Constant):
                a.annotation = _canon_annotation(a.annotation)
        if node.returns is not None and not isinstance(node.returns, ast.Constant):
            node.returns = _canon_annotation(node.returns)
        return node

    visit_FunctionDef = _function
    visit_AsyncFunctionDef = _function

    def visit_ClassDef(self, node: ast.ClassDef):
        # annotated assignments at class level are field declarations (dataclasses): left as they are
        self.in_class = getattr(self, "in_class", 0) + 1
        body = []
        for st in node.body:
            if isinstance(st, ast.AnnAssign):
                body.append(st)
            else:
                self.in_class -= 1
                body.append(self.visit(st))
                self.in_class += 1
        node.body = body
        self.in_class -= 1
        return node

    def visit_AnnAssign(self, node: ast.AnnAssign):
        node = self.generic_visit(node)
        if node.value is not None and isinstance(node.target, ast.Name):
            # `x: T = e` is `x = e` (the annotation of a local / module variable has no effect at run time)
            return self.visit_Assign(ast.copy_location(ast.Assign(targets=[node.target], value=node.value), node))
        return node

    def visit_Assign(self, node: ast.Assign):
        node = self.generic_visit(node)
        if len(node.targets) == 1 and isinstance(node.targets[0], ast.Attribute) and isinstance(node.value, ast.BinOp) and isinstance(node.value.op, (ast.Add, ast.Sub)):
            # `self.n = self.n - 1` -> `self.n -= 1` (an integer constant: the attribute holds a number)
            val = node.value
            if isinstance(val.right, ast.Constant) and isinstance(val.right.value, int) and not isinstance(val.right.value, bool) and isinstance(val.left, ast.Attribute) and ast.dump(val.left.value) == ast.dump(node.targets[0].value) and val.left.attr == node.targets[0].attr:
                return ast.copy_location(ast.AugAssign(target=node.targets[0], op=val.op, value=val.right), node)
        if len(node.targets) == 1 and isinstance(node.targets[0], ast.Name) and node.targets[0].id in self.numeric[-1]:
            name = node.targets[0].id
            val = node.value
            if isinstance(val, ast.BinOp) and isinstance(val.op, (ast.Add, ast.Sub)):
                if isinstance(val.left, ast.Name) and val.left.id == name:
                    return ast.copy_location(ast.AugAssign(target=ast.Name(id=name, ctx=ast.Store()), op=val.op, value=val.right), node)
                if isinstance(val.op, ast.Add) and isinstance(val.right, ast.Name) and val.right.id == name:
                    return ast.copy_location(ast.AugAssign(target=ast.Name(id=name, ctx=ast.Store()), op=val.op, value=val.left), node)
        return node


def _loops_to_comprehensions(fn: ast.AST) -> None:
    """`x = []` immediately followed by `for v in it: [if c:] x.append(E)` (nothing else in the loop, no else / break /
    continue, x not read by it / c / E, the loop variables not used anywhere else in the function) is
    `x = [E for v in it if c]`; likewise `set()` with `.add` and `{}` with `x[K] = V`"""
    counts: Dict[str, int] = {}
    for n in ast.walk(fn):
        if isinstance(n, ast.Name):
            counts[n.id] = counts.get(n.id, 0) + 1
        elif isinstance(n, ast.arg):
            counts[n.arg] = counts.get(n.arg, 0) + 1000
        elif isinstance(n, (ast.Global, ast.Nonlocal)):
            for name in n.names:
                counts[name] = counts.get(name, 0) + 1000

    def blocks(node):
        for fname in ("body", "orelse", "finalbody"):
            blk = getattr(node, fname, None)
            if isinstance(blk, list) and blk and isinstance(blk[0], ast.stmt):
                yield blk
        for h in getattr(node, "handlers", []) or []:
            yield h.body

    def all_blocks(node):
        for blk in blocks(node):
            yield blk
            for st in blk:
                if not isinstance(st, (ast.FunctionDef, ast.AsyncFunctionDef, ast.ClassDef)):
                    yield from all_blocks(st)

    def kind_of(value):
        if isinstance(value, ast.List) and not value.elts:
            return "list"
        if isinstance(value, ast.Dict) and not value.keys:
            return "dict"
        if isinstance(value, ast.Call) and isinstance(value.func, ast.Name) and value.func.id == "set" and not value.args and not value.keywords:
            return "set"
        return None

    for blk in list(all_blocks(fn)):
        i = 0
        while i + 1 < len(blk):
            first, loop = blk[i], blk[i + 1]
            i += 1
            if not (isinstance(first, ast.Assign) and len(first.targets) == 1 and isinstance(first.targets[0], ast.Name) and isinstance(loop, ast.For) and not loop.orelse):
                continue
            kind = kind_of(first.value)
            if kind is None:
                continue
            name = first.targets[0].id
            generators = []
            cur: ast.stmt = loop
            ok = True
            while True:
                if isinstance(cur, ast.For) and not cur.orelse and len(cur.body) == 1:
                    generators.append(ast.comprehension(target=cur.target, iter=cur.iter, ifs=[], is_async=0))
                    cur = cur.body[0]
                elif isinstance(cur, ast.If) and not cur.orelse and len(cur.body) == 1 and generators:
                    generators[-1].ifs.append(cur.test)
                    cur = cur.body[0]
                else:
                    break
            comp = None
            if kind in ("list", "set") and isinstance(cur, ast.Expr) and isinstance(cur.value, ast.Call) and isinstance(cur.value.func, ast.Attribute) \
                    and isinstance(cur.value.func.value, ast.Name) and cur.value.func.value.id == name and cur.value.func.attr == ("append" if kind == "list" else "add") \
                    and len(cur.value.args) == 1 and not cur.value.keywords and not isinstance(cur.value.args[0], ast.Starred):
                elt = cur.value.args[0]
                comp = ast.ListComp(elt=elt, generators=generators) if kind == "list" else ast.SetComp(elt=elt, generators=generators)
                inner = [elt]
            elif kind == "dict" and isinstance(cur, ast.Assign) and len(cur.targets) == 1 and isinstance(cur.targets[0], ast.Subscript) \
                    and isinstance(cur.targets[0].value, ast.Name) and cur.targets[0].value.id == name:
                comp = ast.DictComp(key=cur.targets[0].slice, value=cur.value, generators=generators)
                inner = [cur.targets[0].slice, cur.value]
            if comp is None or not generators:
                continue
            parts = inner + [g.iter for g in generators] + [c for g in generators for c in g.ifs] + [g.target for g in generators]
            if any(isinstance(x, ast.Name) and x.id == name for p_ in parts for x in ast.walk(p_)):
                continue
            if any(isinstance(x, (ast.Yield, ast.YieldFrom, ast.Await, ast.NamedExpr)) for p_ in parts for x in ast.walk(p_)):
                continue
            loopvars = {x.id for g in generators for x in ast.walk(g.target) if isinstance(x, ast.Name)}
            if not all(isinstance(x, (ast.Name, ast.Tuple, ast.List)) for g in generators for x in [g.target]):
                continue
            inside: Dict[str, int] = {}
            for x in ast.walk(loop):
                if isinstance(x, ast.Name):
                    inside[x.id] = inside.get(x.id, 0) + 1
            if any(counts.get(v, 0) != inside.get(v, 0) for v in loopvars):
                continue
            first.value = ast.copy_location(comp, loop)
            ast.fix_missing_locations(first)
            del blk[i]
            i -= 1


def _inline_single_use_defs(fn: ast.AST) -> None:
    """a nested `def f(args): return E` (no decorator, not a generator, not recursive) whose name is read exactly once,
    by a later statement of the same block, and never rebound, is the lambda `lambda args: E` at that place"""

    def blocks(node):
        for fname in ("body", "orelse", "finalbody"):
            blk = getattr(node, fname, None)
            if isinstance(blk, list) and blk and isinstance(blk[0], ast.stmt):
                yield blk
        for h in getattr(node, "handlers", []) or []:
            yield h.body

    def walk_blocks(node):
        for blk in blocks(node):
            yield blk
            for st in blk:
                if not isinstance(st, (ast.FunctionDef, ast.AsyncFunctionDef, ast.ClassDef)):
                    yield from walk_blocks(st)

    for blk in list(walk_blocks(fn)):
        i = 0
        while i < len(blk):
            st = blk[i]
            i += 1
            if not (isinstance(st, ast.FunctionDef) and not st.decorator_list):
                continue
            body = st.body[1:] if st.body and isinstance(st.body[0], ast.Expr) and isinstance(st.body[0].value, ast.Constant) and isinstance(st.body[0].value.value, str) else st.body
            if not (len(body) == 1 and isinstance(body[0], ast.Return) and body[0].value is not None):
                continue
            if any(isinstance(x, (ast.Yield, ast.YieldFrom, ast.Await)) for x in ast.walk(body[0])):
                continue
            if any(isinstance(x, ast.Name) and x.id == st.name for x in ast.walk(st)):
                continue
            uses = [x for x in ast.walk(fn) if isinstance(x, ast.Name) and x.id == st.name]
            others = [x for x in ast.walk(fn) if x is not st and isinstance(x, (ast.FunctionDef, ast.AsyncFunctionDef, ast.ClassDef)) and x.name == st.name]
            shared = any(isinstance(x, (ast.Global, ast.Nonlocal)) and st.name in x.names for x in ast.walk(fn))
            if len(uses) != 1 or not isinstance(uses[0].ctx, ast.Load) or others or shared:
                continue
            use = uses[0]
            later = [x for x in blk[i:] if any(y is use for y in ast.walk(x))]
            if not later:
                continue
            holder = later[0]
            args = st.args
            for a in args.posonlyargs + args.args + args.kwonlyargs + ([args.vararg] if args.vararg else []) + ([args.kwarg] if args.kwarg else []):
                a.annotation = None
            lam = ast.copy_location(ast.Lambda(args=args, body=body[0].value), use)

            class Put(ast.NodeTransformer):
                def visit_Name(self, n):
                    return lam if n is use else n

            Put().visit(holder)
            i -= 1
            del blk[i]


def _inline_return_locals(fn: ast.AST) -> None:
    """`t = <expr>; return t` -> `return <expr>`: nothing can read t between the two statements or after the
    return, unless t is global / nonlocal or captured by a nested function"""
    shared = set()
    for n in ast.walk(fn):
        if isinstance(n, (ast.Global, ast.Nonlocal)):
            shared.update(n.names)
        elif n is not fn and isinstance(n, (ast.FunctionDef, ast.AsyncFunctionDef, ast.Lambda, ast.GeneratorExp)):
            shared.update(x.id for x in ast.walk(n) if isinstance(x, ast.Name))

    def block(stmts: List[ast.stmt]) -> None:
        i = 0
        while i + 1 < len(stmts):
            a, b = stmts[i], stmts[i + 1]
            if (
                isinstance(a, ast.Assign) and len(a.targets) == 1 and isinstance(a.targets[0], ast.Name)
                and isinstance(b, ast.Return) and isinstance(b.value, ast.Name) and b.value.id == a.targets[0].id
                and a.targets[0].id not in shared
            ):
                stmts[i:i + 2] = [ast.copy_location(ast.Return(value=a.value), b)]
                continue
            i += 1

    counts: Dict[str, int] = {}
    for n in ast.walk(fn):
        if isinstance(n, ast.Name):
            counts[n.id] = counts.get(n.id, 0) + 1

    def first_arg_slot(st: ast.stmt):
        """the top-level call of a statement whose FIRST argument is evaluated before anything else of it"""
        call = None
        if isinstance(st, ast.Expr) and isinstance(st.value, ast.Call):
            call = st.value
        elif isinstance(st, (ast.Assign, ast.Return)) and isinstance(st.value, ast.Call):
            call = st.value
        elif isinstance(st, ast.For) and isinstance(st.iter, ast.Call):
            call = st.iter
        if call is not None and isinstance(call.func, ast.Name) and call.args and isinstance(call.args[0], ast.Name):
            return call
        return None

    def inline_args(stmts: List[ast.stmt]) -> None:
        """`t = <call>; f(t, ...)` -> `f(<call>, ...)` when t is a plain local used nowhere else"""
        i = 0
        while i + 1 < len(stmts):
            a, b = stmts[i], stmts[i + 1]
            call = first_arg_slot(b)
            if (
                call is not None and isinstance(a, ast.Assign) and len(a.targets) == 1 and isinstance(a.targets[0], ast.Name)
                and isinstance(a.value, ast.Call) and call.args[0].id == a.targets[0].id
                and a.targets[0].id not in shared and counts.get(a.targets[0].id) == 2
            ):
                call.args[0] = a.value
                del stmts[i]
                continue
            i += 1

    def exits(stmts: List[ast.stmt]) -> bool:
        return bool(stmts) and isinstance(stmts[-1], (ast.Return, ast.Raise, ast.Continue, ast.Break))

    def no_else_after_exit(stmts: List[ast.stmt], is_elif: bool = False) -> None:
        """`if c: ...exit  else: REST` -> `if c: ...exit; REST` (also through elif chains);
        `if c: A  else: <leave>` -> `if not c: <leave>; A` (not for the last arm of an elif chain: a dispatch with a
        final `else: raise` stays a dispatch)"""
        i = 0
        while i < len(stmts):
            st = stmts[i]
            if isinstance(st, ast.If) and st.orelse and exits(st.body):
                rest = st.orelse
                st.orelse = []
                stmts[i + 1:i + 1] = rest
            elif (
                isinstance(st, ast.If) and not is_elif and len(st.orelse) == 1
                and isinstance(st.orelse[0], (ast.Return, ast.Raise, ast.Continue, ast.Break))
            ):
                rest = st.body
                st.test = _not(st.test)
                st.body = st.orelse
                st.orelse = []
                stmts[i + 1:i + 1] = rest
            i += 1

    def return_ifexp(stmts: List[ast.stmt]) -> None:
        """`if c: return a` directly followed by `return b` -> `return a if c else b`"""
        i = 0
        while i + 1 < len(stmts):
            a, b = stmts[i], stmts[i + 1]
            if (
                isinstance(a, ast.If) and not a.orelse and len(a.body) == 1 and isinstance(a.body[0], ast.Return) and a.body[0].value is not None
                and isinstance(b, ast.Return) and b.value is not None
            ):
                cond = ast.copy_location(ast.IfExp(test=a.test, body=a.body[0].value, orelse=b.value), a)
                pos = _positive(cond.test)
                if pos is not None:
                    cond = ast.copy_location(ast.IfExp(test=pos, body=cond.orelse, orelse=cond.body), a)
                stmts[i:i + 2] = [ast.copy_location(ast.Return(value=cond), a)]
                continue
            i += 1

    for n in list(ast.walk(fn)):
        for fname in ("body", "orelse", "finalbody"):
            blk = getattr(n, fname, None)
            if isinstance(blk, list) and blk and isinstance(blk[0], ast.stmt):
                no_else_after_exit(blk, is_elif=(fname == "orelse" and isinstance(n, ast.If) and len(blk) == 1 and isinstance(blk[0], ast.If)))
    for n in ast.walk(fn):
        for fname in ("body", "orelse", "finalbody"):
            blk = getattr(n, fname, None)
            if isinstance(blk, list) and blk and isinstance(blk[0], ast.stmt):
                block(blk)
                inline_args(blk)
        if isinstance(n, ast.Try):
            for h in n.handlers:
                block(h.body)
                inline_args(h.body)


def package_signatures(trees: Sequence[ast.Module]) -> Dict[str, List[str]]:
    """module-level functions a bare name `f(...)` can only refer to: the name is defined once at the top level
    of the package's modules and is not also the name of a class, of a nested function or of an assigned variable
    (methods do not matter: they are reached through an attribute)"""
    seen: Dict[str, List[str]] = {}
    dup = set()
    for tree in trees:
        for st in tree.body:
            if isinstance(st, (ast.FunctionDef, ast.AsyncFunctionDef)):
                if st.name in seen or st.args.vararg or st.args.posonlyargs:
                    dup.add(st.name)
                seen[st.name] = [a.arg for a in st.args.args]
    for tree in trees:
        top = {id(st) for st in tree.body}
        methods = {id(m) for c in ast.walk(tree) if isinstance(c, ast.ClassDef) for m in c.body}
        for st in ast.walk(tree):
            if isinstance(st, ast.ClassDef):
                dup.add(st.name)
            elif isinstance(st, (ast.FunctionDef, ast.AsyncFunctionDef)) and id(st) not in top and id(st) not in methods:
                dup.add(st.name)
            elif isinstance(st, ast.Name) and isinstance(st.ctx, ast.Store):
                dup.add(st.id)
            elif isinstance(st, ast.arg):
                dup.add(st.arg)
    return {k: v for k, v in seen.items() if k not in dup}


def module_string_constants(tree: ast.Module) -> Dict[str, str]:
    """names bound exactly once in the module, at its top level, to a string literal"""
    stores = _store_counts(tree)
    out: Dict[str, str] = {}
    for st in tree.body:
        if isinstance(st, ast.Assign) and len(st.targets) == 1 and isinstance(st.targets[0], ast.Name) and isinstance(st.value, ast.Constant) and isinstance(st.value.value, str):
            if stores.get(st.targets[0].id) == 1:
                out[st.targets[0].id] = st.value.value
    return out


def _store_counts(tree: ast.Module) -> Dict[str, int]:
    stores: Dict[str, int] = {}
    for n in ast.walk(tree):
        if isinstance(n, ast.Name) and isinstance(n.ctx, (ast.Store, ast.Del)):
            stores[n.id] = stores.get(n.id, 0) + 1
        elif isinstance(n, ast.arg):
            stores[n.arg] = stores.get(n.arg, 0) + 1
        elif isinstance(n, (ast.Global, ast.Nonlocal)):
            for name in n.names:
                stores[name] = stores.get(name, 0) + 2
        elif isinstance(n, (ast.Import, ast.ImportFrom)):
            for a in n.names:
                nm = (a.asname or a.name).split(".")[0]
                stores[nm] = stores.get(nm, 0) + 1
        elif isinstance(n, (ast.FunctionDef, ast.AsyncFunctionDef, ast.ClassDef)):
            stores[n.name] = stores.get(n.name, 0) + 1
    return stores


def _inline_module_constants(tree: ast.Module, imported: Optional[Dict[str, str]] = None) -> None:
    """`NAME = <string literal>` at module level, bound nowhere else in the module: every read of NAME in the module
    is the literal (strings only: they are what rules match on - keys, strategies, feature names).  `imported`:
    names this module imports (and binds nowhere else) from package modules where they are such constants."""
    stores: Dict[str, int] = {}
    for n in ast.walk(tree):
        if isinstance(n, ast.Name) and isinstance(n.ctx, (ast.Store, ast.Del)):
            stores[n.id] = stores.get(n.id, 0) + 1
        elif isinstance(n, ast.arg):
            stores[n.arg] = stores.get(n.arg, 0) + 1
        elif isinstance(n, (ast.Global, ast.Nonlocal)):
            for name in n.names:
                stores[name] = stores.get(name, 0) + 2
        elif isinstance(n, (ast.Import, ast.ImportFrom)):
            for a in n.names:
                nm = (a.asname or a.name).split(".")[0]
                stores[nm] = stores.get(nm, 0) + 1
        elif isinstance(n, (ast.FunctionDef, ast.AsyncFunctionDef, ast.ClassDef)):
            stores[n.name] = stores.get(n.name, 0) + 1
    consts: Dict[str, ast.Constant] = {}
    for st in tree.body:
        if isinstance(st, ast.Assign) and len(st.targets) == 1 and isinstance(st.targets[0], ast.Name) and isinstance(st.value, ast.Constant) and isinstance(st.value.value, str):
            if stores.get(st.targets[0].id) == 1:
                consts[st.targets[0].id] = st.value
    for name, value in (imported or {}).items():
        if stores.get(name) == 1:
            consts[name] = ast.Constant(value=value)
    if not consts:
        return

    class Sub(ast.NodeTransformer):
        def visit_Name(self, node: ast.Name):
            if isinstance(node.ctx, ast.Load) and node.id in consts:
                return ast.copy_location(ast.Constant(value=consts[node.id].value), node)
            return node

    Sub().visit(tree)


def identifiers(tree: ast.AST) -> set:
    """every identifier a module mentions (names, attribute names, imported names)"""
    out = set()
    for n in ast.walk(tree):
        if isinstance(n, ast.Name):
            out.add(n.id)
        elif isinstance(n, ast.Attribute):
            out.add(n.attr)
        elif isinstance(n, (ast.Import, ast.ImportFrom)):
            for a in n.names:
                out.add(a.name.split(".")[-1])
                if a.asname:
                    out.add(a.asname)
        elif isinstance(n, ast.Constant) and isinstance(n.value, str) and n.value.isidentifier():
            out.add(n.value)  # __all__ entries, getattr(...) by name
    return out


def _simple_arg(node: ast.AST) -> bool:
    """an argument that can be written at every place the parameter is read: a local name, a constant, or an
    attribute chain on a name"""
    while isinstance(node, ast.Attribute):
        node = node.value
    return isinstance(node, (ast.Name, ast.Constant))


def _inline_trivial_helpers(tree: ast.Module, foreign: set) -> None:
    """a module-level `def h(p1, .., pn): return E` that nothing outside this module mentions, that is only ever
    *called* (never passed around), with plain arguments, is E with the arguments written in: the extract-function
    refactoring undone, so that the rules see the expression where it is used"""
    for _round in range(3):
        helpers = {}
        for st in tree.body:
            if not (isinstance(st, ast.FunctionDef) and not st.decorator_list and st.name not in foreign):
                continue
            a = st.args
            if a.vararg or a.kwarg or a.kwonlyargs or a.defaults or a.posonlyargs:
                continue
            body = st.body[1:] if st.body and isinstance(st.body[0], ast.Expr) and isinstance(st.body[0].value, ast.Constant) and isinstance(st.body[0].value.value, str) else st.body
            if not (len(body) == 1 and isinstance(body[0], ast.Return) and body[0].value is not None):
                continue
            expr = body[0].value
            if any(isinstance(x, (ast.Lambda, ast.ListComp, ast.SetComp, ast.DictComp, ast.GeneratorExp, ast.Yield, ast.YieldFrom, ast.Await, ast.NamedExpr, ast.Starred)) for x in ast.walk(expr)):
                continue
            if any(isinstance(x, ast.Name) and x.id == st.name for x in ast.walk(expr)):
                continue
            helpers[st.name] = (st, [p.arg for p in a.args], expr)
        if not helpers:
            return
        # every mention must be the callee of a call with plain arguments, inside a function of this module
        calls = {}
        callee_ids = set()
        for n in ast.walk(tree):
            if isinstance(n, ast.Call) and isinstance(n.func, ast.Name) and n.func.id in helpers:
                callee_ids.add(id(n.func))
                calls.setdefault(n.func.id, []).append(n)
        bad = set()
        for n in ast.walk(tree):
            if isinstance(n, ast.Name) and n.id in helpers and id(n) not in callee_ids:
                bad.add(n.id)
            elif isinstance(n, (ast.FunctionDef, ast.AsyncFunctionDef, ast.ClassDef)) and n.name in helpers and n is not helpers[n.name][0]:
                bad.add(n.name)
            elif isinstance(n, ast.arg) and n.arg in helpers:
                bad.add(n.arg)
        in_function = set()
        for fn in ast.walk(tree):
            if isinstance(fn, (ast.FunctionDef, ast.AsyncFunctionDef)):
                for n in ast.walk(fn):
                    if isinstance(n, ast.Call) and id(n.func) in callee_ids:
                        in_function.add(id(n))
        plans = {}
        for name, (fn, params, expr) in helpers.items():
            if name in bad or not calls.get(name):
                continue
            ok = True
            for c in calls[name]:
                given = {}
                if id(c) not in in_function or len(c.args) > len(params) or any(k.arg is None for k in c.keywords):
                    ok = False
                    break
                for p_, a_ in zip(params, c.args):
                    given[p_] = a_
                for k in c.keywords:
                    if k.arg in given or k.arg not in params:
                        ok = False
                    given[k.arg] = k.value
                if not ok or set(given) != set(params) or not all(_simple_arg(v) for v in given.values()):
                    ok = False
                    break
                plans[id(c)] = (expr, given)
            if not ok:
                for c in calls[name]:
                    plans.pop(id(c), None)
                bad.add(name)
        done = {name for name in helpers if name not in bad and calls.get(name)}
        if not done:
            return

        class Subst(ast.NodeTransformer):
            def __init__(self, given):
                self.given = given

            def visit_Name(self, n):
                if isinstance(n.ctx, ast.Load) and n.id in self.given:
                    return copy.deepcopy(self.given[n.id])
                return n

        class Inline(ast.NodeTransformer):
            def visit_Call(self, n):
                n = self.generic_visit(n)
                plan = plans.get(id(n))
                if plan is None:
                    return n
                expr, given = plan
                new = Subst(given).visit(copy.deepcopy(expr))
                for x in ast.walk(new):
                    ast.copy_location(x, n)
                return new

        Inline().visit(tree)
        tree.body[:] = [st for st in tree.body if not (isinstance(st, ast.FunctionDef) and st.name in done and helpers[st.name][0] is st)]


def canonicalise(tree: ast.Module, signatures: Dict[str, List[str]], imported: Optional[Dict[str, str]] = None, foreign: Optional[set] = None) -> ast.Module:
    _inline_module_constants(tree, imported)
    if foreign is not None:
        _inline_trivial_helpers(tree, foreign)
    canon = Canon(signatures)
    canon.shadowed = {n.id for n in ast.walk(tree) if isinstance(n, ast.Name) and isinstance(n.ctx, ast.Store)} | {a.arg for a in ast.walk(tree) if isinstance(a, ast.arg)}
    tree = canon.visit(tree)
    ast.fix_missing_locations(tree)
    return tree
